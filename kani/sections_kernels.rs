// Kani harness for sections_builder::ranges (range tiling used by the heading splitter)
use super::*;

#[kani::proof]
#[kani::unwind(6)]
fn k07_ranges_tile() {
    let p: [usize; 3] = kani::any();
    let end: usize = kani::any();
    kani::assume(p[0] < p[1] && p[1] < p[2] && p[2] <= end);
    let r = ranges(vec![p[0], p[1], p[2]], end);
    kani::cover!(r.len() == 3, "trailing range reachable");
    assert!(r.len() == 2 || r.len() == 3);
    assert!(r[0].start == p[0] && r[0].end == p[1] && r[1].start == p[1] && r[1].end == p[2]);
    if p[2] < end {
        assert!(r.len() == 3 && r[2].start == p[2] && r[2].end == end);
    } else {
        assert!(r.len() == 2);
    }
    std::mem::forget(r);
}
