// Kani harnesses for the offset -> line/column kernels of markdown/reader.rs (attached to a scratch copy of the crate as a
// child module of `reader`, so private items are visible).  Real compiled code, real std; bounds = fixed table sizes.
use super::*;

fn table4() -> [usize; 4] {
    let ls: [usize; 4] = kani::any();
    kani::assume(ls[0] == 0 && ls[0] < ls[1] && ls[1] < ls[2] && ls[2] < ls[3]);
    ls
}

#[kani::proof]
#[kani::unwind(6)]
fn k13_to_inline_range() {
    let ls = table4();
    let mut r = MarkdownEventsReader::new();
    r.line_starts = vec![ls[0], ls[1], ls[2], ls[3]];
    let a: usize = kani::any();
    let b: usize = kani::any();
    kani::assume(a <= b);
    let ir = r.to_inline_range(a..b);
    kani::cover!(ir.start.line != ir.end.line, "multi-line range reachable");
    assert!(ir.start.line < 4 && ir.end.line < 4);
    assert!(ls[ir.start.line] + ir.start.character == a);
    assert!(ls[ir.end.line] + ir.end.character == b);
    assert!(ir.start.line == 3 || a < ls[ir.start.line + 1]);
    assert!(ir.end.line == 3 || b < ls[ir.end.line + 1]);
    std::mem::forget(r);
}

#[kani::proof]
#[kani::unwind(6)]
fn k13_to_line_range() {
    let ls = table4();
    let mut r = MarkdownEventsReader::new();
    r.line_starts = vec![ls[0], ls[1], ls[2], ls[3]];
    let a: usize = kani::any();
    let b: usize = kani::any();
    kani::assume(a <= b);
    let lr = r.to_line_range(a..b);
    kani::cover!(lr.end > lr.start + 1, "multi-line range reachable");
    assert!(lr.start < 4);
    assert!(ls[lr.start] <= a);
    assert!(lr.start == 3 || a < ls[lr.start + 1]);
    assert!(lr.end > lr.start);
    // end is the line containing b, or one past it
    let e = lr.end;
    let in_e = e < 4 && ls[e] <= b && (e == 3 || b < ls[e + 1]);
    let in_e1 = e >= 1 && ls[e - 1] <= b && (e - 1 == 3 || b < ls[e]);
    assert!(in_e || in_e1);
    std::mem::forget(r);
}

#[kani::proof]
fn k06_link_kind_round_trip() {
    let hp: bool = kani::any();
    let lt = pulldown_cmark::LinkType::WikiLink { has_pothole: hp };
    let d = to_link_type(lt);
    let back = d.to_ref_type().to_link_type();
    assert!(back == d);
    match d {
        document::LinkType::WikiLinkPiped => assert!(hp),
        document::LinkType::WikiLink => assert!(!hp),
        document::LinkType::Regular => assert!(false),
    }
    assert!(to_link_type(pulldown_cmark::LinkType::Inline) == document::LinkType::Regular);
}
