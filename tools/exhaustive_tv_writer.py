"""One-off exhaustive translator validation (every explored path, not a sample): needs `cd /verif/replay && cargo build --release --offline` first.
usage: cd /verif/mirsym && python3-vt ../tools/<this file> [args]"""
import sys, os, json, subprocess, concurrent.futures
sys.path.insert(0, '/verif/mirsym')
from hlib import *
import explore, props, mirdump
f1 = mirdump.dump("liwe")[0]
prog = program(mir_files=(f1,), crates=("crates/liwe",), repo="/repo")
hz = props.RENDER_SPEC['make'](prog, sys.argv[1] if len(sys.argv) > 1 else 'quick')
hz.tv_every = 1; hz.tv_phase = 0
S = explore.explore(hz, workers=8, time_limit=1500)
print('paths', S.paths, S.by_status, 'tv', len(S.tv), 'violations', len(S.violations))
tvs = S.tv
def chunk(i):
    part = tvs[i::16]
    inp = '\n'.join(json.dumps(t['script']) for t in part) + '\n'
    p = subprocess.run(['/verif/replay/target/release/iwe-replay'], input=inp, stdout=subprocess.PIPE, stderr=subprocess.PIPE, text=True)
    outs = [json.loads(l) for l in p.stdout.split('\n') if l.strip()]
    assert len(outs) == len(part), (len(outs), len(part), p.stderr[-300:])
    bad = []
    for t, o in zip(part, outs):
        if not hz.tv_compare(t, o):
            bad.append((t['script'], t.get('diff')))
    return len(part), bad
tot = 0; allbad = []
with concurrent.futures.ThreadPoolExecutor(8) as exr:
    for n, bad in exr.map(chunk, range(16)):
        tot += n; allbad += bad
print('validated', tot, 'mismatches', len(allbad))
for s, d in allbad[:10]:
    print(json.dumps(s)[:500]); print('   ', json.dumps(d)[:800])
