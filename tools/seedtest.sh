#!/bin/bash
# usage: seedtest.sh <seed-name> <prop> [tier]   -- apply seeded patch to /repo, run ./check, undo
S=/verif/seeded/$1; P=$2; T=${3:-quick}
cd /repo && git apply $S/patch.diff || { echo "APPLY-FAILED $1"; exit 3; }
cd /verif && ./check $P --tier $T > /tmp/seedtest-$1-$P.log 2>&1; rc=$?
git -C /repo checkout -- . 
echo "$1 $P tier=$T exit=$rc $(grep -c '^VIOLATION' /tmp/seedtest-$1-$P.log) violation lines; $(grep -E '^(BROKEN|INCONCLUSIVE)' /tmp/seedtest-$1-$P.log | head -2 | cut -c1-200)"
