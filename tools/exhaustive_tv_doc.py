"""One-off exhaustive translator validation (every explored path, not a sample): needs `cd /verif/replay && cargo build --release --offline` first.
usage: cd /verif/mirsym && python3-vt ../tools/<this file> [args]"""
import sys, os, json, subprocess, concurrent.futures, collections, re
sys.path.insert(0, '/verif/mirsym')
from hlib import *
import explore, props, mirdump
f1 = mirdump.dump("liwe")[0]
prog = program(mir_files=(f1,), crates=("crates/liwe",), repo="/repo")
hz = props.__dict__[sys.argv[1]]['make'](prog, 'quick')
hz.second_pass = True; hz.wiki_refs = True
hz.tv_every = int(sys.argv[2]) if len(sys.argv) > 2 else 1; hz.tv_phase = 0
S = explore.explore(hz, workers=8, time_limit=1500)
print('paths', S.paths, S.by_status, 'tv', len(S.tv))
tvs = S.tv
def chunk(i):
    part = tvs[i::16]
    inp = '\n'.join(json.dumps(t['script']) for t in part) + '\n'
    p = subprocess.run(['/verif/replay/target/release/iwe-replay'], input=inp, stdout=subprocess.PIPE, stderr=subprocess.PIPE, text=True)
    outs = [json.loads(l) for l in p.stdout.split('\n') if l.strip()]
    assert len(outs) == len(part), (len(outs), len(part), p.stderr[-300:])
    bad = []
    for t, o in zip(part, outs):
        if not hz.tv_compare(t, o):
            bad.append((t['script'], t.get('diff')))
    return len(part), bad
tot = 0; allbad = []
with concurrent.futures.ThreadPoolExecutor(8) as exr:
    for n, bad in exr.map(chunk, range(16)):
        tot += n; allbad += bad
print('validated', tot, 'mismatches', len(allbad))
cats = collections.Counter(); ex = {}
def has_empty(bs):
    for b in bs:
        if b['k']=='Quote' and (not b['c'] or has_empty(b['c'])): return True
        if b['k'] in ('Bullet','Ordered'):
            if not b['items'] or any((not it) or has_empty(it) for it in b['items']): return True
    return False
def adjacent(bs):
    for x,y in zip(bs,bs[1:]):
        if x['k']==y['k'] and x['k'] in ('Bullet','Ordered'): return True
    for b in bs:
        if b['k']=='Quote' and adjacent(b['c']): return True
        if b['k'] in ('Bullet','Ordered') and any(adjacent(it) for it in b['items']): return True
    return False
ne=0
for s, d in allbad:
    if False:
        ne+=1; continue
    if isinstance(d, dict) and 'format_twice' in d and False:
        t1, t2 = d['format_twice']
        k = re.sub(r'T\d+\w*', 'T', t1)
        cats[k] += 1; ex[k] = (s[0]['blocks'], t1, t2)
    else:
        cats[str(d)[:80]] += 1; ex[str(d)[:80]] = (s, None, None)
print('with empty containers / adjacent lists:', ne)
for k, n in cats.most_common(40):
    print(n, repr(k)[:300]); print('    second:', repr(ex[k][2])[:300]); print('    input:', json.dumps(ex[k][0])[:300])
