#!/bin/bash
# run every claimed check at the given tier, print one line each
T=${1:-quick}
cd /verif
for p in $(python3 -c "import json;print(' '.join(c['property_id'] for c in json.load(open('MANIFEST.json'))['checks']))"); do
  s=$(date +%s); ./check $p --tier $T > /tmp/runall-$p.log 2>&1; rc=$?; e=$(date +%s)
  echo "$p rc=$rc $((e-s))s $(grep -c '^KNOWN-FINDING' /tmp/runall-$p.log) known; $(tail -1 /tmp/runall-$p.log)"
done
