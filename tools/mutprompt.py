#!/usr/bin/env python3
"""Print the sub-agent prompt for a property id (text of the property only, nothing from /verif)."""
import json, sys
pid, wt = sys.argv[1], sys.argv[2]
n = sys.argv[3] if len(sys.argv) > 3 else "2"
p = [json.loads(l) for l in open('/verif/properties.jsonl') if json.loads(l)['id'] == pid][0]
print(f"""You are helping evaluate a verification effort by producing realistic *bug-introducing* changes (mutations) to an open-source Rust project, iwe-org/iwe (a Markdown note-taking LSP server + CLI). You work ONLY inside your own scratch git worktree of the repository at {wt} (it has a pre-populated `target/` dir so builds are incremental). Do NOT read or touch /verif or /repo. There is no network; use `--offline` with cargo (e.g. `cd {wt} && cargo test --workspace --offline 2>&1 | tail -40`).

Here is a semantic property that the project is supposed to satisfy:

Title: {p['title']}
Statement: {p['statement']}
Quantified: {p['quantifier']['text']}
Why the existing tests cannot settle it: {p['why_tests_cant']}
Relevant files: {', '.join(p['anchors']['files'])}
Mechanisms meant to make it hold: {json.dumps(p['anchors']['mechanism'])}

Your task: produce {n} DIFFERENT, independent source changes to the library/server code (crates/*/src, not tests) each of which
  (a) still compiles, and the ENTIRE existing test suite (`cargo test --workspace --offline`) still passes with it,
  (b) breaks the property above (a real behavioural violation of the statement, observable through the public API of the `liwe` crate or the LSP server),
  (c) needs something specific to manifest — an unusual input, a particular multi-step sequence of operations, a rare combination of constructs, a boundary value, or two cooperating sites that each look fine alone — NOT something ordinary use or the existing tests would expose at once,
  (d) looks like a plausible mistake or an innocent-looking refactor/optimisation a developer could make (small diff, typically 1-15 lines), not sabotage like `if input == "magic"`.

For each change i (1..{n}) deliver, under {wt}/out/m<i>/ :
  - patch.diff : `git diff` of the change against the worktree's HEAD (only that one change; must apply cleanly with `git apply` on a clean checkout),
  - a demonstration: a Rust integration test file demo.rs (to be dropped into crates/liwe/tests/ or crates/iwes/tests/ — say which in notes.md; it may use the existing test fixtures/helpers in those directories) that FAILS with the change applied and PASSES on the unchanged code,
  - notes.md : which part of the statement is violated, what specific input/sequence is needed to manifest it, and the exact commands you ran to confirm (1) the full existing suite passes with the change, (2) the demo fails with the change, (3) the demo passes without it.
Work one change at a time: make the change, run the whole suite, write the demo, confirm fail/pass, save `git diff -- crates/*/src > out/m<i>/patch.diff`, then `git checkout -- crates` (and remove the demo from the tests dir) before starting the next. Leave the worktree clean (apart from out/) at the end. Do not commit anything. In your final message, list for each change: one-line description, files touched, and whether all three confirmations succeeded.""")
