#!/usr/bin/env python3
"""Writes MANIFEST.json from the table below (kept in one place so it stays valid)."""
import json, sys
sys.path.insert(0, '/verif/mirsym')

CLAIMED = {
 'C01': ('conservation at event, block and text-layout level: every input block/token appears exactly once, in order, in the same container and kind, in the projected '
         'GraphBlocks, for every block sequence within the bounds; the text the real writer emits for a block tree reads back (reference reader, validated against the real one) as that tree, '
         'ordered-list item numbers symbolic', '3 C01'),
 'C02': ('format(format(x)) == format(x) as text, decided by executing the real builder, projector and writer twice from MIR with a reference reader '
         '(CommonMark block structure, validated against the real reader) in between; symbolic heading depths and ordered-list item numbers; '
         'block-structured notes of one-word texts (inline escaping, tables\' own text and front matter are outside)', '3 C02'),
 'C03': ('panic-freedom of blocks -> graph -> tree -> projection -> Markdown text, of the library operations (import, update, lookups at a symbolic line, search paths) and of Document::link_at: '
         'every reachable panic edge of the real MIR within the bounds is reported', '3 C03'),
 'C04': ('incremental == fresh at Graph level: after every update_key step of every history within the bounds, all observations equal those of a from-scratch import of the current documents (parser stubbed)', '3 C04'),
 'C05': ('backlink index == independent scan of the documents, for block and inline links, on fresh and incrementally updated graphs', '3 C05'),
 'C06': ('title-refresh decision kernel: kind kept, destination kept, title of the note the link resolves to, for every link kind / position / url form / directory pair in the table', '3 C06'),
 'C07': ('outline laws with symbolic heading levels: order kept, emitted outline well nested, well-nested input keeps identical levels, '
         'blocks stay under the nearest preceding heading / same list item / quote; the written text keeps the nesting (writer executed, read back)', '3 C07'),
 'C08': ('rename through the real handle_rename at tree level: refused onto an existing note; old name deleted and new name created exactly once; exactly the linking notes and the new note are written; no link to the old name remains, every such link now points to the new name, all other links and all text kept', '3 C08'),
 'C09': ('extract / inline code actions at tree level: text conserved exactly once across the edited notes, fresh distinct names, one titled reference per extracted section, inlined note deleted and its links re-relativised, for every node x provider within the bounds', '3 C09'),
 'C10': ('list/section conversions at tree level: only the note is rewritten, every word and link kept in order, only the targeted list changes type; the text written for the result keeps every block and the nesting', '3 C10'),
 'C11': ('sessions of the message loop through the real Router::handle_message: 1-2 edit notifications each meeting 0..3 request workers whose still-running flags are symbolic (fairness: workers terminate), symbolic edit versions: every didChange / didSave is applied, the idle state is the last text sent, other notifications change nothing', '3 C11'),
 'C12': ('handler -> liwe boundary for code actions: no panic edge reachable in action()/changes() for any node x provider, every offered action resolves', '3 C12'),
 'C13': ('offset -> line/column kernels: to_line_range / to_inline_range for every sorted line table and byte range (symbolic 64-bit), line_starts for every line structure with LF / CRLF terminators and symbolic line lengths', '3 C13'),
 'C17': ('squash == independent bounded expansion for every reference graph within the bounds and symbolic u8 depth; termination (call-depth bound never hit); CLI rebuild of the squashed tree is faithful', '3 C17'),
 'C18': ('outline paths == independent forward enumeration over the documents (soundness of every listed chain, completeness for every heading, finiteness under cycles, rank ordering of the search list), heading levels symbolic; the empty-query search (real Database::global_search) returns min(100, n) distinct entries that are the head of the documented order, for cached lists of 3..102 (thorough ..120) paths with symbolic reference counts and text lengths at the cut-off', '3 C18'),
 'C20': ('arena representation invariant established by every build within the bounds', '3 C20'),
}
NA = {
 'C14': 'percent-encoded URL string surgery plus directory walking; no integer kernel, file system not encodable (DESIGN 3 C14)',
 'C15': 'the law lives in third-party byte-level path code (relative-path); the executor only has a model of it, which cannot be the deciding step (DESIGN 3 C15)',
 'C16': 'scheduler and hash-seed nondeterminism are environment, not program data (DESIGN 3 C16)',
 'C19': 'file system, partial writes and process death have no solver-visible state (DESIGN 3 C19)',
}
PENDING = {
 'C04': 'harness H4 (import vs update histories) not built yet',
 'C05': 'harness H5 (backlink index vs independent scan) not built yet',
 'C06': 'harness H6 (title refresh decision table) not built yet',
 'C09': 'harness H9 (extract/inline tree surgery) not built yet',
 'C10': 'harness H10 (list/section conversions) not built yet',
 'C12': 'harness H12 (handler boundary panic-freedom) not built yet',
 'C13': 'harness H13 (offset kernels) not built yet',
 'C17': 'harness H17 (squash) not built yet',
 'C18': 'harness H18 (path enumeration) not built yet',
}
def main():
    import props
    checks = []
    for pid in sorted(props.PROPS):
        text, ref = CLAIMED[pid]
        checks.append({
            'property_id': pid,
            'quick_cmd': './check %s --tier quick' % pid,
            'thorough_cmd': './check %s --tier thorough' % pid,
            'evidence_file': '/verif/evidence/%s.json' % pid,
            'replay_cmd_template': './check %s --replay {path}' % pid,
            'engine': 'mirsym',
            'level_claimed': {'category': 'model_checking', 'text': 'bounded symbolic execution of the real MIR with z3: ' + text, 'design_ref': 'DESIGN.md ' + ref},
            'level_note': '; '.join(props.PROPS[pid]['notes'])[:1800],
            'technique': 'solver-based symbolic execution of rustc MIR (path forking + z3 path conditions / laws), counterexamples replayed on the native build'
                         + ('; Kani/CBMC proof harnesses on the compiled scalar kernels' if pid in ('C06', 'C07', 'C13') else ''),
        })
    na = [{'property_id': k, 'reason': v} for k, v in sorted({**NA, **{k: v for k, v in PENDING.items() if k not in props.PROPS}}.items())]
    m = {
        'version': 1,
        'setup_cmd': 'cd /verif && python3-vt mirsym/mirdump.py liwe iwes && cd replay && CARGO_NET_OFFLINE=true cargo build --offline --quiet',
        'hooks': {'guard': 'none in /repo (no source hooks: the executor reads compiler output; Kani harnesses are appended to a scratch copy under cfg(kani))',
                  'enable': 'not needed', 'baseline_off_cmd': 'cd /repo && cargo test --workspace --no-fail-fast --offline',
                  'source_commits': [], 'add_only': True},
        'engines': [{'name': 'kani', 'path': '/verif/kani', 'serves_properties': ['C06', 'C07', 'C13'],
                     'kind_free_text': 'Kani 0.68 / CBMC proof harnesses over the scalar kernels of the real compiled crate (attached to a scratch copy via cfg(kani)); cross-check of the MIR executor'},
                    {'name': 'mirsym', 'path': '/verif/mirsym', 'serves_properties': sorted(props.PROPS),
                     'kind_free_text': 'symbolic executor for rustc MIR text (Python + z3): path forking by re-execution, concrete shapes with symbolic leaves, native models for std, replay of models on the native build'}],
        'checks': checks,
        'not_applicable': na,
        'notes': 'fix: commits in /repo and open findings are listed in /verif/known_findings.json; seeded mutants in /verif/seeded',
    }
    json.dump(m, open('/verif/MANIFEST.json', 'w'), indent=1)
    print('MANIFEST: %d checks, %d not applicable' % (len(checks), len(na)))
main()
