#!/bin/bash
# usage: confirm_seed.sh <PROP> <mN>   -- confirms a sub-agent mutation in its scratch worktree /tmp/mut/<PROP>
# writes /verif/seeded/<PROP>-<mN>/{patch.diff,demo.rs,notes.md,confirm.log,meta.json}
set -u
P=$1; M=$2; WT=${3:-/tmp/mut/$P}; NAME=${4:-$P-$M}; SRC=$WT/out/$M; DST=/verif/seeded/$NAME
mkdir -p $DST
cd $WT || exit 1
git checkout -q -- crates 2>/dev/null; git clean -fdq crates 2>/dev/null
LOG=$DST/confirm.log; : > $LOG
where=liwe; grep -qiE 'crates/iwes/tests' $SRC/notes.md && ! grep -qiE 'crates/liwe/tests' $SRC/notes.md && where=iwes
echo "demo crate: $where" >> $LOG
git apply $SRC/patch.diff || { echo "patch does not apply" >> $LOG; exit 1; }
cargo test --workspace --offline >> $LOG.suite 2>&1; s1=$?
fails=$(grep -c "^test .* FAILED" $LOG.suite)
echo "suite with change: exit=$s1 failed_tests=$fails" >> $LOG
cp $SRC/demo.rs crates/$where/tests/zz_demo_$M.rs
cargo test -p $where --offline --test zz_demo_$M >> $LOG.demo1 2>&1; s2=$?
echo "demo with change: exit=$s2 (expected non-zero)" >> $LOG
git checkout -q -- crates/*/src
cargo test -p $where --offline --test zz_demo_$M >> $LOG.demo2 2>&1; s3=$?
echo "demo without change: exit=$s3 (expected 0)" >> $LOG
rm -f crates/$where/tests/zz_demo_$M.rs
cp $SRC/patch.diff $SRC/demo.rs $SRC/notes.md $DST/
ok=false; [ $s1 -eq 0 ] && [ $s2 -ne 0 ] && [ $s3 -eq 0 ] && ok=true
python3 - <<PY
import json
json.dump({"property":"$P","mutation":"$M","demo_crate":"$where","confirmed":"$ok"=="true",
 "suite_with_change_exit":$s1,"demo_with_change_exit":$s2,"demo_without_change_exit":$s3,
 "ran":["git apply patch.diff","cargo test --workspace --offline","cargo test -p $where --offline --test zz_demo_$M (with change)","git checkout -- crates/*/src","cargo test -p $where --offline --test zz_demo_$M (without change)"],
 "needs": open("$SRC/notes.md").read()[:1500]}, open("$DST/meta.json","w"), indent=1)
PY
rm -f $LOG.suite $LOG.demo1 $LOG.demo2
echo "$NAME confirmed=$ok"
