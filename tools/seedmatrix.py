#!/usr/bin/env python3
"""Apply every seeded change in its own scratch worktree (never /repo itself), run the quick (or SEED_TIER) checks of the
properties it is expected to break, and record the outcome in seeded/RESULTS.json + seeded/RESULTS.md.
usage: SEED_JOBS=3 tools/seedmatrix.py [seed-or-property ...]"""
import json, os, subprocess, sys, glob, time, queue, concurrent.futures

PLAN = {   # seed -> properties whose checks are run against it (own property first; extra ones where another check is the natural detector)
 'C01-m3': ['C01', 'C04'], 'C03-m1': ['C03', 'C04', 'C12'], 'C12-m3': ['C12', 'C04'], 'C13-m3': ['C13', 'C04'],
 'C18-m1': ['C18', 'C04'], 'C07-n1': ['C07', 'C01'], 'C05-n2': ['C05', 'C06'], 'C05-n3': ['C05', 'C12'], 'C06-m2': ['C06', 'C04'],
 'C12-m1': ['C12', 'C13'], 'C20-n3': ['C20', 'C04'], 'C02-m1': ['C02', 'C07'], 'C02-m2': ['C02', 'C01'], 'C02-m3': ['C02', 'C10'], 'C08-p1': ['C08', 'C04'],
 'C01-m1': ['C01', 'C02'], 'C01-p1': ['C01', 'C04'], 'C07-m3': ['C07', 'C02'],
}
RES = '/verif/seeded/RESULTS.json'
HEAD = subprocess.check_output(['git', '-C', '/repo', 'rev-parse', 'HEAD'], text=True).strip()

def work(s, props, tier, slot):
    wt, cache = '/tmp/seedwt%d' % slot, '/tmp/seedcache%d' % slot
    if not os.path.exists(wt):
        subprocess.run(['git', '-C', '/repo', 'worktree', 'add', '--detach', wt, HEAD], capture_output=True)
    subprocess.run(['git', '-C', wt, 'checkout', '-q', '--', '.'])
    subprocess.run(['git', '-C', wt, 'checkout', '-q', '--detach', HEAD], capture_output=True)
    a = subprocess.run(['git', '-C', wt, 'apply', '/verif/seeded/%s/patch.diff' % s], capture_output=True, text=True)
    if a.returncode != 0:
        return {'applies': False, 'note': a.stderr[-200:]}
    env = dict(os.environ, VERIF_REPO=wt, VERIF_CACHE=cache, VERIF_EVIDENCE_DIR=cache + '/evidence', VERIF_WORKERS=os.environ.get('SEED_WORKERS', '6'))
    r = {'applies': True, 'checks': {}, 'tier': tier}
    for p in props:
        t0 = time.time()
        c = subprocess.run(['./check', p, '--tier', tier], cwd='/verif', capture_output=True, text=True, env=env)
        out = c.stdout.split('\n')
        r['checks'][p] = {'exit': c.returncode, 'violation_lines': len([l for l in out if l.startswith('VIOLATION')]),
                          'laws': sorted({l.split('law=')[1].split()[0] for l in out if 'law=' in l})[:4],
                          'broken': [l[:160] for l in out if l.startswith(('BROKEN', 'INCONCLUSIVE'))][:2], 'wall_s': round(time.time() - t0)}
    subprocess.run(['git', '-C', wt, 'checkout', '-q', '--', '.'])
    r['detected_by'] = sorted(p for p, x in r['checks'].items() if x['exit'] == 1)
    return r

def write_md(results):
    lines = ['| seeded change | breaks | what it needs | detected by | laws that fired |', '|---|---|---|---|---|']
    for s in sorted(results):
        meta = json.load(open('/verif/seeded/%s/meta.json' % s))
        needs = ' '.join((meta.get('summary') or meta.get('needs', '')).split())[:170].replace('|', '/')
        r = results[s]
        if meta.get('neutralised_by'):
            lines.append('| %s | %s | %s | (no longer breaks the property: second site repaired by %s) | |' % (s, meta['property'], needs, meta['neutralised_by']['commit'])); continue
        if not r.get('applies'):
            lines.append('| %s | %s | %s | (patch no longer applies) | |' % (s, meta['property'], needs)); continue
        det = ', '.join('%s (%s)' % (p, r['tier']) for p in r['detected_by']) or 'not detected (%s)' % r['tier']
        laws = '; '.join(sorted({l for x in r['checks'].values() for l in x['laws']}))[:220]
        lines.append('| %s | %s | %s | %s | %s |' % (s, meta['property'], needs, det, laws))
    open('/verif/seeded/RESULTS.md', 'w').write('\n'.join(lines) + '\n')

def main():
    only = sys.argv[1:]
    jobs = int(os.environ.get('SEED_JOBS', '3'))
    tier = os.environ.get('SEED_TIER', 'quick')
    results = json.load(open(RES)) if os.path.exists(RES) else {}
    seeds = sorted(os.path.basename(d) for d in glob.glob('/verif/seeded/C*-[mnp]*') if os.path.isdir(d))
    todo = [s for s in seeds if (not only or s in only or s.split('-')[0] in only) and not json.load(open('/verif/seeded/%s/meta.json' % s)).get('neutralised_by')]
    slots = queue.Queue()
    for i in range(jobs):
        slots.put(i)
    def run(s):
        slot = slots.get()
        try:
            return s, work(s, PLAN.get(s, [s.split('-')[0]]), tier, slot)
        finally:
            slots.put(slot)
    with concurrent.futures.ThreadPoolExecutor(jobs) as ex:
        for s, r in ex.map(run, todo):
            if tier != 'quick' and s in results and results[s].get('detected_by'):
                pass
            results[s] = r if tier == 'quick' or s not in results else dict(results[s], **{'thorough': r})
            json.dump(results, open(RES, 'w'), indent=1)
            print(s, r.get('detected_by'), {p: x['exit'] for p, x in r.get('checks', {}).items()}, flush=True)
    write_md(results)
    for i in range(jobs):
        subprocess.run(['git', '-C', '/repo', 'worktree', 'remove', '--force', '/tmp/seedwt%d' % i], capture_output=True)

if __name__ == '__main__':
    main()
