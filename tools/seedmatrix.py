#!/usr/bin/env python3
"""Apply every seeded mutant to /repo, run the quick checks of the properties it is expected to break (and any extra ones listed),
undo, and record the outcome in seeded/RESULTS.json + seeded/RESULTS.md.  Sequential: it edits /repo."""
import json, os, subprocess, sys, glob, time
PLAN = {   # seed -> properties to run
 'C01-m1': ['C01'], 'C01-m2': ['C01'], 'C01-m3': ['C01', 'C04'],
 'C03-m1': ['C03', 'C04', 'C12'], 'C03-m2': ['C03'], 'C03-m3': ['C03'],
 'C04-m1': ['C04', 'C05'], 'C04-m2': ['C04', 'C20'], 'C04-m3': ['C04', 'C05'],
 'C05-m1': ['C05'], 'C05-m2': ['C05'], 'C05-m3': ['C05'],
 'C06-m1': ['C06'], 'C06-m2': ['C06', 'C04'], 'C06-m3': ['C06'],
 'C07-m1': ['C07'], 'C07-m2': ['C07'], 'C07-m3': ['C07'],
 'C09-m1': ['C09'], 'C09-m2': ['C09'], 'C09-m3': ['C09'],
 'C10-m1': ['C10'], 'C10-m2': ['C10'], 'C10-m3': ['C10'],
 'C12-m1': ['C12'], 'C12-m2': ['C12'], 'C12-m3': ['C12', 'C04'],
 'C13-m1': ['C13'], 'C13-m2': ['C13'], 'C13-m3': ['C13', 'C04'],
 'C17-m1': ['C17'], 'C17-m2': ['C17'], 'C17-m3': ['C17'],
 'C18-m1': ['C18', 'C04'], 'C18-m2': ['C18'], 'C18-m3': ['C18'],
 'C20-m1': ['C20'], 'C20-m2': ['C20'], 'C20-m3': ['C20'],
}
def main():
    only = sys.argv[1:]
    tier = os.environ.get('SEED_TIER', 'quick')
    res_path = '/verif/seeded/RESULTS.json'
    results = json.load(open(res_path)) if os.path.exists(res_path) else {}
    seeds = sorted(os.path.basename(d) for d in glob.glob('/verif/seeded/C*-m*') if os.path.isdir(d))
    for s in seeds:
        if only and s not in only and s.split('-')[0] not in only:
            continue
        props = PLAN.get(s, [s.split('-')[0]])
        subprocess.run(['git', '-C', '/repo', 'checkout', '--', '.'])
        a = subprocess.run(['git', '-C', '/repo', 'apply', '/verif/seeded/%s/patch.diff' % s], capture_output=True, text=True)
        if a.returncode != 0:
            results[s] = {'applies': False, 'note': a.stderr[-200:]}
            json.dump(results, open(res_path, 'w'), indent=1); continue
        r = {'applies': True, 'checks': {}}
        for p in props:
            t0 = time.time()
            c = subprocess.run(['./check', p, '--tier', tier], cwd='/verif', capture_output=True, text=True)
            laws = sorted({l.split('law=')[1].split()[0] for l in c.stdout.split('\n') if 'law=' in l})
            r['checks'][p] = {'exit': c.returncode, 'violation_lines': c.stdout.count('\nVIOLATION') + c.stdout.startswith('VIOLATION'), 'laws': laws[:4],
                              'broken': [l[:160] for l in c.stdout.split('\n') if l.startswith(('BROKEN', 'INCONCLUSIVE'))][:2], 'wall_s': round(time.time() - t0)}
        subprocess.run(['git', '-C', '/repo', 'checkout', '--', '.'])
        r['tier'] = tier
        r['detected_by'] = sorted(p for p, x in r['checks'].items() if x['exit'] == 1)
        results[s] = r
        json.dump(results, open(res_path, 'w'), indent=1)
        print(s, r['detected_by'], {p: x['exit'] for p, x in r['checks'].items()}, flush=True)
    # markdown
    lines = ['| seeded change | breaks | what it needs | detected by (quick) | laws |', '|---|---|---|---|---|']
    for s in sorted(results):
        meta = json.load(open('/verif/seeded/%s/meta.json' % s))
        needs = ' '.join(meta.get('summary', '').split())[:140]
        r = results[s]
        if not r.get('applies'):
            lines.append('| %s | %s | %s | (patch no longer applies) | |' % (s, meta['property'], needs)); continue
        det = ', '.join(r['detected_by']) or 'not detected'
        laws = '; '.join(sorted({l for x in r['checks'].values() for l in x['laws']}))[:160]
        lines.append('| %s | %s | %s | %s | %s |' % (s, meta['property'], needs, det, laws))
    open('/verif/seeded/RESULTS.md', 'w').write('\n'.join(lines) + '\n')
main()
