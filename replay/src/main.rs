//! Native replay / translator-validation driver: executes a JSON script of operations against the
//! real liwe crate and prints one JSON result per operation (panics are caught and reported).
use std::collections::HashMap;
use std::io::Read;
use std::panic::{catch_unwind, AssertUnwindSafe};

use liwe::graph::graph_node::GraphNode;
use liwe::graph::sections_builder::SectionsBuilder;
use liwe::graph::{Graph, GraphContext};
use liwe::markdown::MarkdownReader;
use liwe::model::config::MarkdownOptions;
use liwe::model::document::*;
use liwe::model::graph::{GraphBlock, GraphInline};
use liwe::model::node::{ColumnAlignment, Node};
use liwe::model::projector::Projector;
use liwe::model::tree::Tree;
use liwe::model::{Key, Position};
use serde_json::{json, Value};

use iwes::router::server::action::{
    ActionContext, ActionProvider, Change, ListChangeType, ListToSections, ReferenceInlineQuote, ReferenceInlineSection, SectionExtract,
    SectionToList, SubSectionsExtract,
};
use liwe::model::config::Model;

/// the same delegation as `impl ActionContext for &Server`
struct Cx<'a> {
    g: &'a Graph,
    opts: MarkdownOptions,
    model: Model,
}

impl<'a> ActionContext for &Cx<'a> {
    fn key_of(&self, node_id: u64) -> Key { self.g.key_of(node_id) }
    fn collect(&self, key: &Key) -> Tree { self.g.collect(key) }
    fn squash(&self, key: &Key, depth: u8) -> Tree { self.g.squash(key, depth) }
    fn random_key(&self, parent: &str) -> Key { self.g.random_key(parent) }
    fn markdown_options(&self) -> &MarkdownOptions { &self.opts }
    fn llm_query(&self, _prompt: String, _model: &Model) -> String { String::new() }
    fn default_model(&self) -> &Model { &self.model }
    fn patch(&self) -> Graph { self.g.new_patch() }
}

/// a session of messages through the real Router::run loop.  The outgoing channel has capacity 0, so a request worker
/// that has computed its answer stays in flight (blocked in respond, holding its clone of the router) until this driver
/// reads the response: {"request":"alive"} is such a request, {"request":"done"} is a request whose worker ends at once
/// (unsupported method).  After every notification the outstanding responses are read, as any client does.
fn run_router(op: &Value) -> Value {
    use iwes::router::{LspClient, Router, ServerConfig};
    use lsp_server::{Message, Notification, Request, RequestId};
    use std::time::Duration;
    let (to_client_tx, to_client_rx) = crossbeam_channel::bounded::<Message>(0);
    let (to_server_tx, to_server_rx) = crossbeam_channel::unbounded::<Message>();
    let mut state = HashMap::new();
    state.insert("a".to_string(), "# T1\n\nT2\n".to_string());
    state.insert("b".to_string(), "T3\n".to_string());
    let router = Router::new(to_client_tx, ServerConfig {
        base_path: "/basepath".to_string(),
        state,
        sequential_ids: Some(false),
        configuration: Default::default(),
        lsp_client: LspClient::Unknown,
    });
    let h = std::thread::spawn(move || { let _ = router.run(to_server_rx); });
    let mut next_id = 1;
    let mut outstanding = 0;
    let mut keys: Vec<String> = vec!["a".into(), "b".into()];
    let drain = |outstanding: &mut i32| {
        while *outstanding > 0 {
            match to_client_rx.recv_timeout(Duration::from_secs(5)) {
                Ok(_) => *outstanding -= 1,
                Err(_) => break,
            }
        }
    };
    for st in op["steps"].as_array().unwrap() {
        if let Some(r) = st.get("request").and_then(|r| r.as_str()) {
            let alive = r == "alive";
            let method = if alive { "textDocument/inlayHint" } else { "textDocument/hover" };
            let params = if alive { json!({"textDocument": {"uri": "file:///basepath/b.md"}, "range": {"start": {"line": 0, "character": 0}, "end": {"line": 9, "character": 0}}}) } else { json!({}) };
            to_server_tx.send(Message::Request(Request { id: RequestId::from(next_id), method: method.into(), params })).unwrap();
            next_id += 1;
            if alive { outstanding += 1; }
            std::thread::sleep(Duration::from_millis(120));
        } else if let Some(kind) = st.get("note").and_then(|r| r.as_str()) {
            let key = st["key"].as_str().unwrap();
            if !keys.iter().any(|k| k == key) { keys.push(key.to_string()); }
            let uri = format!("file:///basepath/{}.md", key);
            let text = st["text"].as_str().unwrap_or("");
            let note = match kind {
                "didChange" => Some(Notification { method: "textDocument/didChange".into(), params: json!({"textDocument": {"uri": uri, "version": st["version"].as_i64().unwrap_or(1)}, "contentChanges": [{"text": text}]}) }),
                "didSave+text" => Some(Notification { method: "textDocument/didSave".into(), params: json!({"textDocument": {"uri": uri}, "text": text}) }),
                "didSave" => Some(Notification { method: "textDocument/didSave".into(), params: json!({"textDocument": {"uri": uri}}) }),
                "other" => Some(Notification { method: "$/setTrace".into(), params: json!({"value": "off"}) }),
                _ => None,      // exit is sent at the end
            };
            if let Some(nf) = note {
                to_server_tx.send(Message::Notification(nf)).unwrap();
            }
            std::thread::sleep(Duration::from_millis(200));     // the notification meets the workers that are still in flight
            drain(&mut outstanding);
            std::thread::sleep(Duration::from_millis(100));
        }
    }
    drain(&mut outstanding);
    // idle: ask for every note
    let mut texts = serde_json::Map::new();
    for key in keys {
        let uri = format!("file:///basepath/{}.md", key);
        to_server_tx.send(Message::Request(Request { id: RequestId::from(next_id), method: "textDocument/formatting".into(),
            params: json!({"textDocument": {"uri": uri}, "options": {"tabSize": 2, "insertSpaces": true}}) })).unwrap();
        next_id += 1;
        let t = match to_client_rx.recv_timeout(Duration::from_secs(10)) {
            Ok(Message::Response(r)) => r.result.map(|v| v.to_string()).unwrap_or_default(),
            _ => String::new(),
        };
        texts.insert(key, json!(t.chars().take(300).collect::<String>()));
    }
    let _ = to_server_tx.send(Message::Notification(Notification { method: "exit".into(), params: json!(null) }));
    let _ = h.join();
    json!({"texts": texts})
}

/// drive the real request handlers of iwes::router::server::Server
fn run_server(op: &Value) -> Value {
    use iwes::router::server::Server;
    use iwes::router::{LspClient, ServerConfig};
    use lsp_types::*;
    let mut state = HashMap::new();
    for (k, v) in op["state"].as_object().unwrap() {
        state.insert(k.trim_end_matches(".md").to_string(), v.as_str().unwrap().to_string());
    }
    let mut server = Server::new(ServerConfig {
        base_path: "/basepath".to_string(),
        state,
        sequential_ids: Some(false),
        configuration: Default::default(),
        lsp_client: if op["request"].as_str() == Some("code_action_range") { LspClient::Helix } else { LspClient::Unknown },
    });
    if let Some(edits) = op.get("edits").and_then(|e| e.as_array()) {
        for e in edits {
            server.handle_did_change_text_document(DidChangeTextDocumentParams {
                text_document: VersionedTextDocumentIdentifier { uri: Url::parse(e["uri"].as_str().unwrap()).unwrap(), version: 1 },
                content_changes: vec![TextDocumentContentChangeEvent { range: None, range_length: None, text: e["text"].as_str().unwrap().to_string() }],
            });
        }
    }
    let uri = Url::parse(op["uri"].as_str().unwrap()).unwrap();
    let pos = Position::new(op["line"].as_u64().unwrap_or(0) as u32, op["character"].as_u64().unwrap_or(0) as u32);
    let tdi = TextDocumentIdentifier { uri: uri.clone() };
    let tdp = TextDocumentPositionParams { text_document: tdi.clone(), position: pos };
    let edit_json = |we: &WorkspaceEdit| -> Value {
        let mut deleted = vec![];
        let mut created = vec![];
        let mut edits = serde_json::Map::new();
        if let Some(DocumentChanges::Operations(ops)) = &we.document_changes {
            for o in ops {
                match o {
                    DocumentChangeOperation::Op(ResourceOp::Delete(d)) => deleted.push(d.uri.to_string()),
                    DocumentChangeOperation::Op(ResourceOp::Create(c)) => created.push(c.uri.to_string()),
                    DocumentChangeOperation::Op(_) => {}
                    DocumentChangeOperation::Edit(te) => {
                        let u = te.text_document.uri.to_string();
                        let key = Key::from_file_name(u.trim_start_matches("file:///basepath/"));
                        if let Some(OneOf::Left(t)) = te.edits.first() {
                            edits.insert(u, blocks_of_markdown(&key, &t.new_text));
                        }
                    }
                }
            }
        }
        json!({"deleted": deleted, "created": created, "edits": Value::Object(edits)})
    };
    match op["request"].as_str().unwrap() {
        "references" => serde_json::to_value(server.handle_references(ReferenceParams {
            text_document_position: tdp,
            work_done_progress_params: Default::default(),
            partial_result_params: Default::default(),
            context: ReferenceContext { include_declaration: false },
        })).unwrap(),
        "definition" => serde_json::to_value(server.handle_goto_definition(GotoDefinitionParams {
            text_document_position_params: tdp,
            work_done_progress_params: Default::default(),
            partial_result_params: Default::default(),
        })).unwrap(),
        "prepare_rename" => serde_json::to_value(server.handle_prepare_rename(tdp)).unwrap(),
        "rename" => match server.handle_rename(RenameParams {
            text_document_position: tdp,
            new_name: op["new_name"].as_str().unwrap_or("n").to_string(),
            work_done_progress_params: Default::default(),
        }) {
            Ok(Some(we)) => json!({"ok": edit_json(&we)}),
            Ok(None) => json!({"ok": null}),
            Err(e) => json!({"err": e.message}),
        },
        "formatting" => {
            let r = server.handle_document_formatting(DocumentFormattingParams {
                text_document: tdi,
                options: FormattingOptions { tab_size: 2, insert_spaces: true, ..Default::default() },
                work_done_progress_params: Default::default(),
            });
            let key = Key::from_file_name(uri.to_string().trim_start_matches("file:///basepath/"));
            json!(r.iter().map(|t| blocks_of_markdown(&key, &t.new_text)).collect::<Vec<_>>())
        }
        "symbols" => serde_json::to_value(server.handle_document_symbols(DocumentSymbolParams {
            text_document: tdi,
            work_done_progress_params: Default::default(),
            partial_result_params: Default::default(),
        })).unwrap(),
        "hints" => serde_json::to_value(server.handle_inlay_hints(InlayHintParams {
            work_done_progress_params: Default::default(),
            text_document: tdi,
            range: Range::new(Position::new(0, 0), Position::new(99, 0)),
        })).unwrap(),
        "code_action_range" => {
            // a client that sends non-empty ranges: the same start line with an empty and with a wide range
            let line = op["line"].as_u64().unwrap_or(0) as u32;
            let mut out = vec![];
            for end in [line, line + 2] {
                let acts = server.handle_code_action(&CodeActionParams {
                    text_document: tdi.clone(),
                    range: Range::new(Position::new(line, 0), Position::new(end, 0)),
                    context: Default::default(),
                    work_done_progress_params: Default::default(),
                    partial_result_params: Default::default(),
                });
                out.push(acts.iter().map(|a| match a { CodeActionOrCommand::CodeAction(ca) => json!([ca.title, ca.data]), _ => json!(null) }).collect::<Vec<_>>());
            }
            json!(out)
        }
        "code_action" => {
            let mut out = vec![];
            for line in [0u32, 2, 4, 6] {
                let acts = server.handle_code_action(&CodeActionParams {
                    text_document: tdi.clone(),
                    range: Range::new(Position::new(line, 0), Position::new(line, 0)),
                    context: Default::default(),
                    work_done_progress_params: Default::default(),
                    partial_result_params: Default::default(),
                });
                for a in acts {
                    if let CodeActionOrCommand::CodeAction(ca) = a {
                        let res = server.handle_code_action_resolve(&ca);
                        out.push(json!({"title": ca.title, "has_edit": res.edit.is_some()}));
                    }
                }
            }
            json!(out)
        }
        other => json!({"error": format!("unknown request {}", other)}),
    }
}

fn blocks_of_markdown(key: &Key, md: &str) -> Value {
    let mut g = Graph::new();
    g.from_markdown(key.clone(), md, MarkdownReader::new());
    let t = (&g).collect(key);
    gblocks(&Projector::project(t.iter(), &key.parent()))
}

/// neutral render tree -> GraphBlock.  {"k":"P"|"PL","t":..} {"k":"H","lv":n,"t":..} {"k":"C","t":..,"lang":..} {"k":"R"} {"k":"Q","c":[..]}
/// {"k":"BL"|"OL","items":[[..]], "base": n}: an ordered list is preceded by `base` one-word items (so its items are numbered base+1..)
fn rblock(v: &Value) -> GraphBlock {
    let t = || vec![GraphInline::Str(v["t"].as_str().unwrap_or("").to_string())];
    let kids = |x: &Value| x.as_array().map(|a| a.iter().map(rblock).collect::<Vec<_>>()).unwrap_or_default();
    match v["k"].as_str().unwrap() {
        "P" => GraphBlock::Para(t()),
        "PL" => GraphBlock::Plain(t()),
        "H" => GraphBlock::Header(v["lv"].as_u64().unwrap() as u8, t()),
        "C" => GraphBlock::CodeBlock(v["lang"].as_str().map(|s| s.to_string()), v["t"].as_str().unwrap_or("").to_string()),
        "R" => GraphBlock::HorizontalRule,
        "Q" => GraphBlock::BlockQuote(kids(&v["c"])),
        k @ ("BL" | "OL") => {
            let mut items: Vec<Vec<GraphBlock>> = vec![];
            for _ in 0..v["base"].as_u64().unwrap_or(0) {
                items.push(vec![GraphBlock::Plain(vec![GraphInline::Str("x".into())])]);
            }
            for it in v["items"].as_array().unwrap() {
                items.push(kids(it));
            }
            if k == "BL" { GraphBlock::BulletList(items) } else { GraphBlock::OrderedList(items) }
        }
        other => panic!("render tree kind {}", other),
    }
}

/// Document blocks as read back by the real reader, in the same neutral form (the first `skip` items of an ordered list are dropped again)
fn dneutral(b: &DocumentBlock, bases: &mut Vec<u64>) -> Value {
    let text = |inl: &Vec<DocumentInline>| inl.iter().map(|i| i.to_plain_text()).collect::<Vec<_>>().join("");
    match b {
        DocumentBlock::Para(p) => json!({"k": "P", "t": text(&p.inlines)}),
        DocumentBlock::Plain(p) => json!({"k": "P", "t": text(&p.inlines)}),
        DocumentBlock::Header(h) => json!({"k": "H", "lv": h.level, "t": text(&h.inlines)}),
        DocumentBlock::CodeBlock(c) => json!({"k": "C", "t": c.text, "lang": c.lang}),
        DocumentBlock::HorizontalRule(_) => json!({"k": "R"}),
        DocumentBlock::BlockQuote(q) => json!({"k": "Q", "c": q.blocks.iter().map(|x| dneutral(x, bases)).collect::<Vec<_>>()}),
        DocumentBlock::BulletList(l) => json!({"k": "BL", "items": l.items.iter().map(|it| it.iter().map(|x| dneutral(x, bases)).collect::<Vec<_>>()).collect::<Vec<_>>()}),
        DocumentBlock::OrderedList(l) => {
            let skip = if bases.is_empty() { 0 } else { bases.remove(0) } as usize;
            let n = l.items.len();
            json!({"k": "OL", "n_items": n, "items": l.items.iter().skip(skip.min(n)).map(|it| it.iter().map(|x| dneutral(x, bases)).collect::<Vec<_>>()).collect::<Vec<_>>()})
        }
        other => json!({"k": "other", "dbg": format!("{:?}", other).chars().take(80).collect::<String>()}),
    }
}

fn run_action(g: &Graph, provider: &str, target: u64) -> Value {
    let cx = Cx { g, opts: MarkdownOptions::default(), model: Model::default() };
    macro_rules! go {
        ($p:expr) => {{
            let p = $p;
            match p.action(target, &cx) {
                None => json!({"offered": false}),
                Some(_) => match p.changes(target, &cx) {
                    None => json!({"offered": true, "changes": null}),
                    Some(chs) => {
                        let mut out = vec![];
                        for c in chs.iter() {
                            match c {
                                Change::Create(c) => out.push(json!({"op": "Create", "key": c.key.to_string()})),
                                Change::Remove(c) => out.push(json!({"op": "Remove", "key": c.key.to_string()})),
                                Change::Update(u) => out.push(json!({"op": "Update", "key": u.key.to_string(), "markdown": u.markdown, "blocks": blocks_of_markdown(&u.key, &u.markdown)})),
                            }
                        }
                        json!({"offered": true, "changes": out})
                    }
                },
            }
        }};
    }
    match provider {
        "SectionExtract" => go!(SectionExtract {}),
        "SubSectionsExtract" => go!(SubSectionsExtract {}),
        "ReferenceInlineSection" => go!(ReferenceInlineSection {}),
        "ReferenceInlineQuote" => go!(ReferenceInlineQuote {}),
        "SectionToList" => go!(SectionToList {}),
        "ListToSections" => go!(ListToSections {}),
        "ListChangeType" => go!(ListChangeType {}),
        _ => json!({"error": "unknown provider"}),
    }
}

fn irange() -> std::ops::Range<Position> {
    Position { line: 0, character: 0 }..Position { line: 0, character: 0 }
}

fn inline(v: &Value) -> DocumentInline {
    let k = v["k"].as_str().unwrap();
    match k {
        "Str" => DocumentInline::Str(v["t"].as_str().unwrap().to_string()),
        "Space" => DocumentInline::Space(Space { inline_range: irange() }),
        "Link" => DocumentInline::Link(Link {
            target: Target { url: v["url"].as_str().unwrap().to_string(), title: String::new() },
            attr: Attributes::default(),
            inlines: v["c"].as_array().map(|a| a.iter().map(inline).collect()).unwrap_or_default(),
            title: String::new(),
            inline_range: irange(),
            link_type: match v["lt"].as_str().unwrap_or("Regular") {
                "WikiLink" => LinkType::WikiLink,
                "WikiLinkPiped" => LinkType::WikiLinkPiped,
                _ => LinkType::Regular,
            },
        }),
        "Emph" => DocumentInline::Emph(Emph { inlines: v["c"].as_array().unwrap().iter().map(inline).collect(), inline_range: irange() }),
        "Strong" => DocumentInline::Strong(Strong { inlines: v["c"].as_array().unwrap().iter().map(inline).collect(), inline_range: irange() }),
        _ => panic!("driver: unknown inline kind {}", k),
    }
}

fn lr(v: &Value) -> std::ops::Range<usize> {
    match v.get("lr").and_then(|x| x.as_array()) {
        Some(a) => a[0].as_u64().unwrap() as usize..a[1].as_u64().unwrap() as usize,
        None => 0..1,
    }
}

fn inlines_of(v: &Value) -> Vec<DocumentInline> {
    if let Some(a) = v.get("inl").and_then(|x| x.as_array()) {
        return a.iter().map(inline).collect();
    }
    vec![DocumentInline::Str(v["t"].as_str().unwrap().to_string())]
}

fn block(v: &Value) -> DocumentBlock {
    let k = v["k"].as_str().unwrap();
    match k {
        "Para" => DocumentBlock::Para(Para { line_range: lr(v), inlines: inlines_of(v) }),
        "Plain" => DocumentBlock::Plain(Plain { line_range: lr(v), inlines: inlines_of(v) }),
        "Header" => DocumentBlock::Header(Header { line_range: lr(v), level: v["lv"].as_u64().unwrap() as u8, inlines: inlines_of(v) }),
        "Code" => DocumentBlock::CodeBlock(CodeBlock { line_range: lr(v), lang: v["lang"].as_str().map(|s| s.to_string()), text: v["t"].as_str().unwrap().to_string() }),
        "Rule" => DocumentBlock::HorizontalRule(HorizontalRule { line_range: lr(v) }),
        "Table" => {
            let t = v["t"].as_str().unwrap();
            DocumentBlock::Table(Table {
                line_range: lr(v),
                header: vec![vec![DocumentInline::Str(format!("{}h", t))]],
                rows: vec![vec![vec![DocumentInline::Str(format!("{}c", t))]]],
                alignment: vec![ColumnAlignment::None],
            })
        }
        "Ref" => DocumentBlock::Para(Para {
            line_range: lr(v),
            inlines: vec![DocumentInline::Link(Link {
                target: Target { url: v["url"].as_str().unwrap().to_string(), title: String::new() },
                attr: Attributes::default(),
                inlines: if v["t"].as_str().unwrap().is_empty() { vec![] } else { vec![DocumentInline::Str(v["t"].as_str().unwrap().to_string())] },
                title: String::new(),
                inline_range: irange(),
                link_type: match v["lt"].as_str().unwrap_or("Regular") {
                    "WikiLink" => LinkType::WikiLink,
                    "WikiLinkPiped" => LinkType::WikiLinkPiped,
                    _ => LinkType::Regular,
                },
            })],
        }),
        "Quote" => DocumentBlock::BlockQuote(BlockQuote { line_range: lr(v), blocks: blocks(&v["c"]) }),
        "Bullet" => DocumentBlock::BulletList(BulletList { items: v["items"].as_array().unwrap().iter().map(blocks).collect() }),
        "Ordered" => DocumentBlock::OrderedList(OrderedList { items: v["items"].as_array().unwrap().iter().map(blocks).collect() }),
        _ => panic!("driver: unknown block kind {}", k),
    }
}

fn blocks(v: &Value) -> Vec<DocumentBlock> {
    v.as_array().unwrap().iter().map(block).collect()
}

fn ginlines(v: &Vec<GraphInline>) -> Value {
    Value::Array(v.iter().map(ginline).collect())
}

fn ginline(i: &GraphInline) -> Value {
    match i {
        GraphInline::Str(s) => json!({"_v": "Str", "_0": s}),
        GraphInline::Space => json!({"_v": "Space"}),
        GraphInline::SoftBreak => json!({"_v": "SoftBreak"}),
        GraphInline::LineBreak => json!({"_v": "LineBreak"}),
        GraphInline::Emph(c) => json!({"_v": "Emph", "_0": ginlines(c)}),
        GraphInline::Strong(c) => json!({"_v": "Strong", "_0": ginlines(c)}),
        GraphInline::Strikeout(c) => json!({"_v": "Strikeout", "_0": ginlines(c)}),
        GraphInline::Underline(c) => json!({"_v": "Underline", "_0": ginlines(c)}),
        GraphInline::Superscript(c) => json!({"_v": "Superscript", "_0": ginlines(c)}),
        GraphInline::Subscript(c) => json!({"_v": "Subscript", "_0": ginlines(c)}),
        GraphInline::SmallCaps(c) => json!({"_v": "SmallCaps", "_0": ginlines(c)}),
        GraphInline::Code(l, t) => json!({"_v": "Code", "_f": [l, t]}),
        GraphInline::Math(t) => json!({"_v": "Math", "_0": t}),
        GraphInline::RawInline(l, t) => json!({"_v": "RawInline", "_f": [l, t]}),
        GraphInline::Image(u, t, c) => json!({"_v": "Image", "_f": [u, t, ginlines(c)]}),
        GraphInline::Link(u, t, lt, c) => json!({"_v": "Link", "_f": [u, t, {"_v": format!("{:?}", lt), "_f": []}, ginlines(c)]}),
    }
}

fn gblocks(v: &Vec<GraphBlock>) -> Value {
    Value::Array(v.iter().map(gblock).collect())
}

fn gblock(b: &GraphBlock) -> Value {
    match b {
        GraphBlock::Plain(i) => json!({"_v": "Plain", "_0": ginlines(i)}),
        GraphBlock::Para(i) => json!({"_v": "Para", "_0": ginlines(i)}),
        GraphBlock::LineBlock(_) => json!({"_v": "LineBlock"}),
        GraphBlock::CodeBlock(l, t) => json!({"_v": "CodeBlock", "_f": [l, t]}),
        GraphBlock::RawBlock(l, t) => json!({"_v": "RawBlock", "_f": [l, t]}),
        GraphBlock::BlockQuote(c) => json!({"_v": "BlockQuote", "_0": gblocks(c)}),
        GraphBlock::OrderedList(items) => json!({"_v": "OrderedList", "_0": items.iter().map(gblocks).collect::<Vec<_>>()}),
        GraphBlock::BulletList(items) => json!({"_v": "BulletList", "_0": items.iter().map(gblocks).collect::<Vec<_>>()}),
        GraphBlock::Header(l, i) => json!({"_v": "Header", "_f": [l, ginlines(i)]}),
        GraphBlock::HorizontalRule => json!({"_v": "HorizontalRule", "_f": []}),
        GraphBlock::Table(h, _a, rows) => json!({"_v": "Table", "_f": [h.iter().map(ginlines).collect::<Vec<_>>(), [], rows.iter().map(|r| r.iter().map(ginlines).collect::<Vec<_>>()).collect::<Vec<_>>()]}),
    }
}

fn node_json(n: &Node) -> Value {
    match n {
        Node::Document(k) => json!({"_v": "Document", "_0": {"relative_path": k.to_string()}}),
        Node::Section(i) => json!({"_v": "Section", "_0": ginlines(i)}),
        Node::Quote() => json!({"_v": "Quote", "_f": []}),
        Node::BulletList() => json!({"_v": "BulletList", "_f": []}),
        Node::OrderedList() => json!({"_v": "OrderedList", "_f": []}),
        Node::Leaf(i) => json!({"_v": "Leaf", "_0": ginlines(i)}),
        Node::Raw(l, c) => json!({"_v": "Raw", "_f": [l, c]}),
        Node::HorizontalRule() => json!({"_v": "HorizontalRule", "_f": []}),
        Node::Reference(r) => json!({"_v": "Reference", "_0": {"key": {"relative_path": r.key.to_string()}, "text": r.text, "reference_type": {"_v": format!("{:?}", r.reference_type), "_f": []}}}),
        Node::Table(t) => json!({"_v": "Table", "_0": {"header": t.header.iter().map(ginlines).collect::<Vec<_>>(), "rows": t.rows.iter().map(|r| r.iter().map(ginlines).collect::<Vec<_>>()).collect::<Vec<_>>()}}),
    }
}

fn tree_json(t: &Tree) -> Value {
    json!({"id": t.id, "node": node_json(&t.node), "children": t.children.iter().map(tree_json).collect::<Vec<_>>()})
}

fn arena_json(g: &Graph) -> Value {
    let mut out = vec![];
    for (i, n) in g.nodes().iter().enumerate() {
        let kind = match n {
            GraphNode::Empty => "Empty",
            GraphNode::Document(_) => "Document",
            GraphNode::Section(_) => "Section",
            GraphNode::Quote(_) => "Quote",
            GraphNode::BulletList(_) => "BulletList",
            GraphNode::OrderedList(_) => "OrderedList",
            GraphNode::Leaf(_) => "Leaf",
            GraphNode::Raw(_) => "Raw",
            GraphNode::HorizontalRule(_) => "HorizontalRule",
            GraphNode::Reference(_) => "Reference",
            GraphNode::Table(_) => "Table",
        };
        if matches!(n, GraphNode::Empty) {
            out.push(json!({"kind": "Empty", "id": i}));
            continue;
        }
        let mut d = json!({"kind": kind, "id": n.id(), "prev": n.prev_id(), "next": n.next_id(), "child": n.child_id(), "line": n.line_id()});
        if let Some(k) = n.key() {
            d["key"] = json!({"relative_path": k.to_string()});
        }
        if let Some(k) = n.ref_key() {
            d["key"] = json!({"relative_path": k.to_string()});
        }
        if let Some(l) = n.line_id() {
            d["text"] = json!(g.get_line(l).to_plain_text());
        }
        if let Some(c) = n.content() {
            d["content"] = json!(c);
        }
        if let GraphNode::Reference(r) = n {
            d["ref_text"] = json!(r.text());
        }
        out.push(d);
    }
    Value::Array(out)
}

struct St {
    g: Graph,
    db: Option<liwe::database::Database>,
    texts: HashMap<String, String>,
}

fn gr(st: &St) -> &Graph {
    match &st.db {
        Some(db) => db.graph(),
        None => &st.g,
    }
}

fn key(v: &Value) -> Key {
    Key::from_file_name(v["key"].as_str().unwrap())
}

fn run_op(st: &mut St, op: &Value) -> Value {
    let name = op["op"].as_str().unwrap();
    match name {
        "new_graph" => {
            st.g = match op.get("refs_extension").and_then(|e| e.as_str()) {
                Some(e) => Graph::new_with_options(MarkdownOptions { refs_extension: e.to_string() }),
                None => Graph::new(),
            };
            st.g.set_sequential_keys(true);
            json!({})
        }
        "doc" => {
            // blocks -> SectionsBuilder (no text parser involved)
            let k = key(op);
            let b = blocks(&op["blocks"]);
            SectionsBuilder::new(&mut st.g.build_key(&k), &b, &k);
            json!({})
        }
        "markdown" => {
            let k = key(op);
            st.g.from_markdown(k, op["text"].as_str().unwrap(), MarkdownReader::new());
            json!({})
        }
        "update" => {
            let k = key(op);
            match st.db.as_mut() {
                Some(db) => db.update_document(k, op["text"].as_str().unwrap().to_string()),
                None => {
                    st.g.update_key(k, op["text"].as_str().unwrap());
                }
            }
            json!({})
        }
        "content" => json!(st.db.as_ref().and_then(|db| db.get_document(&key(op)))),
        "import" => {
            let mut state = HashMap::new();
            for (k, v) in op["state"].as_object().unwrap() {
                state.insert(k.clone(), v.as_str().unwrap().to_string());
            }
            // a server start: Database::new = import + search paths + raw texts
            st.db = Some(liwe::database::Database::new(state, false, MarkdownOptions::default()));
            json!({})
        }
        "global_search" => {
            // result of the search and, for judging it, the whole ranked list it was cut from
            let db = st.db.as_ref().unwrap();
            let q = op["query"].as_str().unwrap();
            let f = |p: &liwe::graph::SearchPath| json!({"key": p.key.to_string(), "text": p.search_text, "rank": p.node_rank});
            json!({"result": db.global_search(q).iter().map(f).collect::<Vec<_>>(),
                   "all": db.graph().search_paths().iter().map(f).collect::<Vec<_>>()})
        }
        "arena" => arena_json(gr(st)),
        "server" => run_server(op),
        "router_session" => run_router(op),
        "action" => run_action(gr(st), op["provider"].as_str().unwrap(), op["target"].as_u64().unwrap()),
        "keys" => {
            let mut m = serde_json::Map::new();
            for k in gr(st).keys() {
                m.insert(k.to_string(), json!(gr(st).get_node_id(&k)));
            }
            Value::Object(m)
        }
        "collect" => tree_json(&gr(st).collect(&key(op))),
        "copy_collect" => {
            // the copy path of patch graphs: collected tree -> Graph::build_key_from_iter -> collect
            let k = key(op);
            let t = gr(st).collect(&k);
            let mut patch = Graph::new();
            patch.build_key_from_iter(&k, liwe::model::tree::TreeIter::new(&t));
            let mut keys = serde_json::Map::new();
            for kk in patch.keys() {
                keys.insert(kk.to_string(), json!((&patch).get_node_id(&kk)));
            }
            json!({"tree": tree_json(&(&patch).collect(&k)), "arena": arena_json(&patch), "keys": Value::Object(keys)})
        }
        "squash" => tree_json(&gr(st).squash(&key(op), op["depth"].as_u64().unwrap() as u8)),
        "project" => {
            let k = key(op);
            let t = gr(st).collect(&k);
            gblocks(&Projector::project(t.iter(), &k.parent()))
        }
        "project_squash" => {
            let k = key(op);
            let t = gr(st).squash(&k, op["depth"].as_u64().unwrap() as u8);
            gblocks(&Projector::project(t.iter(), &k.parent()))
        }
        "to_markdown" => json!(gr(st).to_markdown(&key(op))),
        "format_twice" => {
            // the real thing: format, read the formatted text back, format again
            let k = key(op);
            let t1 = gr(st).to_markdown(&k);
            let mut g2 = match op.get("refs_extension").and_then(|e| e.as_str()) {
                Some(e) => Graph::new_with_options(MarkdownOptions { refs_extension: e.to_string() }),
                None => Graph::new(),
            };
            g2.from_markdown(k.clone(), &t1, MarkdownReader::new());
            let t2 = g2.to_markdown(&k);
            json!([t1, t2])
        }
        "is_ref_url" => json!(liwe::model::is_ref_url(op["url"].as_str().unwrap())),
        "render_reread" => {
            // real writer, then real reader
            let blocks: Vec<GraphBlock> = op["blocks"].as_array().unwrap().iter().map(rblock).collect();
            let text = liwe::model::graph::blocks_to_markdown_sparce(&blocks, &MarkdownOptions::default());
            let d = liwe::graph::Reader::document(&MarkdownReader::new(), &text);
            let mut bases: Vec<u64> = op["bases"].as_array().map(|a| a.iter().map(|x| x.as_u64().unwrap_or(0)).collect()).unwrap_or_default();
            let shown: String = if text.len() > 4000 { text[text.len() - 4000..].chars().skip(4).collect() } else { text.clone() };
            json!({"text_tail": shown, "blocks": d.blocks.iter().map(|b| dneutral(b, &mut bases)).collect::<Vec<_>>()})
        }
        "parse_blocks" => {
            // text -> Document blocks (Debug form) : witnesses for grammar productions
            let d = liwe::graph::Reader::document(&MarkdownReader::new(), op["text"].as_str().unwrap());
            json!(format!("{:?}", d.blocks))
        }
        "block_refs_to" => json!(gr(st).get_block_references_to(&key(op))),
        "inline_refs_to" => json!(gr(st).get_inline_references_to(&key(op))),
        "block_refs_in" => json!(gr(st).get_block_references_in(&key(op))),
        "title" => json!(gr(st).get_key_title(&key(op))),
        "metadata" => {
            // front-matter as the exported text carries it
            let k = key(op);
            if gr(st).get_node_id(&k).is_none() {
                json!(null)
            } else {
                let md = gr(st).to_markdown(&k);
                if md.starts_with("---\n") {
                    let rest = &md[4..];
                    json!(rest.find("---\n").map(|i| rest[..i].to_string()))
                } else {
                    json!(null)
                }
            }
        }
        "node_id_at" => json!(gr(st).get_node_id_at(&key(op), op["line"].as_u64().unwrap() as usize)),
        "line_range" => json!(gr(st).node_line_range(op["id"].as_u64().unwrap()).map(|r| vec![r.start, r.end])),
        "key_of" => json!(gr(st).key_of(op["id"].as_u64().unwrap()).to_string()),
        "paths" => json!(gr(st).paths().iter().map(|p| p.ids()).collect::<Vec<_>>()),
        "link_pos" => {
            // first link of the document: its inline range (line, character)
            let d = liwe::graph::Reader::document(&MarkdownReader::new(), op["text"].as_str().unwrap());
            fn find(b: &DocumentBlock) -> Option<DocumentInline> {
                match b {
                    DocumentBlock::Para(p) => p.inlines.iter().find(|i| i.is_link()).cloned(),
                    DocumentBlock::Plain(p) => p.inlines.iter().find(|i| i.is_link()).cloned(),
                    DocumentBlock::Header(p) => p.inlines.iter().find(|i| i.is_link()).cloned(),
                    DocumentBlock::BlockQuote(q) => q.blocks.iter().find_map(find),
                    DocumentBlock::BulletList(l) => l.items.iter().flatten().find_map(find),
                    DocumentBlock::OrderedList(l) => l.items.iter().flatten().find_map(find),
                    _ => None,
                }
            }
            match d.blocks.iter().find_map(find) {
                Some(l) => {
                    let r = l.inline_range();
                    json!({"start": [r.start.line, r.start.character], "end": [r.end.line, r.end.character]})
                }
                None => json!(null),
            }
        }
        "url_at" => {
            let p = liwe::parser::Parser::new(op["text"].as_str().unwrap(), MarkdownReader::new());
            json!(p.url_at(Position { line: op["line"].as_u64().unwrap() as usize, character: op["character"].as_u64().unwrap() as usize }))
        }
        "key_parent" => json!(Key::from_file_name(op["key"].as_str().unwrap()).parent()),
        "key_from_rel" => json!(Key::from_rel_link_url(op["url"].as_str().unwrap(), op["rel"].as_str().unwrap()).to_string()),
        "key_to_rel" => json!(Key::from_file_name(op["key"].as_str().unwrap()).to_rel_link_url(op["rel"].as_str().unwrap())),
        "key_from_file" => json!(Key::from_file_name(op["name"].as_str().unwrap()).to_string()),
        _ => json!({"error": format!("unknown op {}", name)}),
    }
}

fn main() {
    let mut input = String::new();
    std::io::stdin().read_to_string(&mut input).unwrap();
    std::panic::set_hook(Box::new(|_| {}));
    // one script per line: each line is a JSON array of ops; output one JSON array per line
    for line in input.lines() {
        if line.trim().is_empty() {
            continue;
        }
        let script: Value = serde_json::from_str(line).unwrap();
        let mut st = St { g: Graph::new(), db: None, texts: HashMap::new() };
        st.g.set_sequential_keys(true);
        let _ = &st.texts;
        let mut out = vec![];
        for op in script.as_array().unwrap() {
            let r = catch_unwind(AssertUnwindSafe(|| run_op(&mut st, op)));
            match r {
                Ok(v) => out.push(v),
                Err(e) => {
                    let msg = if let Some(s) = e.downcast_ref::<String>() { s.clone() } else if let Some(s) = e.downcast_ref::<&str>() { s.to_string() } else { "panic".to_string() };
                    out.push(json!({"panic": msg}));
                    break;
                }
            }
        }
        println!("{}", Value::Array(out));
    }
}
