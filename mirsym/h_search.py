"""H18b: the empty-query search list.  Real Database::global_search (its map / comparator / projection closures, the 100-entry
cut) over a cached path list whose size crosses the cut-off; a few entries have symbolic reference counts and text lengths."""
import re
import z3
from harness import *
from h_lib import natives_as_str

CUT = 100
BASE_RANK, BASE_LEN = 1, 3
MAX_RANK, MAX_LEN = 2, 6

# (number of cached paths, positions of the symbolic entries)
LAYOUTS_QUICK = [(102, (98, 99, 100, 101)), (101, (0, 50, 99, 100)), (3, (0, 1, 2)), (100, (0, 98, 99))]
LAYOUTS_THOROUGH = LAYOUTS_QUICK + [(103, (97, 98, 99, 100, 101, 102)), (101, (0, 1, 49, 50, 99, 100)), (120, (0, 60, 99, 100, 119)), (5, (0, 1, 2, 3, 4))]


def before(ra, la, rb, lb):
    """documented empty-query order: more references first, then the shorter text"""
    return z3.Or(z3.UGT(ra, rb), z3.And(ra == rb, z3.ULT(la, lb)))


class SearchHarness(Harness):
    name = 'empty_query_search'
    real_functions = ('Database::global_search', 'global_search::{closure#0..2}', 'global_search::{closure#1}::{closure#0}')
    required_covers = ('more-than-100-paths', 'at-most-100-paths', 'tie-on-reference-count')

    def __init__(self, prog, tier='quick'):
        Harness.__init__(self, prog, tier)
        self.layouts = LAYOUTS_QUICK if tier == 'quick' else LAYOUTS_THOROUGH
        self.bounds = {'cached_paths': sorted({n for n, _ in self.layouts}), 'symbolic_entries': max(len(s) for _, s in self.layouts),
                       'other_entries': 'reference count %d, text length %d' % (BASE_RANK, BASE_LEN),
                       'reference_count': '0..%d, non-increasing along the cached list (established by Graph::search_paths)' % MAX_RANK,
                       'text_length': '1..%d' % MAX_LEN, 'query': 'empty'}
        self.max_depth = 4000
        self.len_pat = re.compile(r'^String::len$')
        self.fuzzy_pat = re.compile(r'FuzzyMatcher>::fuzzy_match$')
        self.skim_pat = re.compile(r'SkimMatcherV2 as Default>::default$')

    # ---- environment stubs
    def stub_len(self, ex, c, args, dt):
        s = natives_as_str(args[0])
        return self.lens.get(s, NotImplemented)

    def stub_fuzzy(self, ex, c, args, dt):
        # the score is not read when the query is empty; the built-in self test of global_search expects no match for abc / abx
        if natives_as_str(args[1]) == 'abc' and natives_as_str(args[2]) == 'abx':
            return NONE()
        return SOME(0)

    def stub_skim(self, ex, c, args, dt):
        return Opaque('SkimMatcherV2')

    def run(self, ctx, ex):
        h = self.h
        n, sym = self.layouts[ctx.choose(len(self.layouts))]
        self.lens = {}
        ranks, lens, toks = [], [], []
        for i in range(n):
            tok = 'T%03d' % i
            if i in sym:
                r, l = ctx.sym_bv('rank%d' % i, 64), ctx.sym_bv('len%d' % i, 64)
                ctx.assume(z3.And(z3.ULE(r, MAX_RANK), z3.UGE(l, 1), z3.ULE(l, MAX_LEN)))
            else:
                r, l = BASE_RANK, BASE_LEN
            if ranks:
                prev = ranks[-1]
                if z3.is_expr(prev) or z3.is_expr(r):
                    ctx.assume(z3.UGE(prev if z3.is_expr(prev) else z3.BitVecVal(prev, 64), r if z3.is_expr(r) else z3.BitVecVal(r, 64)))
            ranks.append(r); lens.append(l); toks.append(tok)
            self.lens[tok] = l
        ctx.input_desc = {'cached_paths': n, 'symbolic_positions': list(sym)}
        self.prog.overrides = {self.len_pat: self.stub_len, self.fuzzy_pat: self.stub_fuzzy, self.skim_pat: self.stub_skim}
        paths = []
        for i in range(n):
            np_ = self.prog.mk_struct('graph::path::NodePath', ids=h.vec([i + 1]))
            paths.append(self.prog.mk_struct('graph::SearchPath', search_text=toks[i], node_rank=ranks[i], key=h.key('n%03d' % i),
                                             root=True, line=0, path=np_))
        db = self.prog.mk_struct_lenient('database::Database', paths=h.vec(paths), sequential_ids=False,
                                         graph=Opaque('graph'), content=MapV('HashMap'))
        res = ex.call('Database::global_search', [Ref(Cell(db)), ''])
        got = [natives_as_str(x.v.get('search_text')) for x in res.items]
        info = {'cached_paths': n, 'symbolic_positions': list(sym), 'result_positions': [int(t[1:]) for t in got if t in self.lens]}
        self.judge(n, got, toks, ranks, lens, ctx.law, info)
        if n > CUT: ctx.cover('more-than-100-paths')
        else: ctx.cover('at-most-100-paths')
        if len(sym) > 1: ctx.cover('tie-on-reference-count')
        return info

    def judge(self, n, got, toks, ranks, lens, law, info):
        bv = lambda x: x if z3.is_expr(x) else z3.BitVecVal(x, 64)
        idx = {t: i for i, t in enumerate(toks)}
        ok = all(t in idx for t in got) and len(set(got)) == len(got)
        law('C18.search-result-entries-are-distinct-cached-paths', ok, info)
        if not ok:
            return
        law('C18.search-returns-min-100-entries', len(got) == min(CUT, n), dict(info, returned=len(got)))
        pos = [idx[t] for t in got]
        inorder = [z3.Not(before(bv(ranks[b]), bv(lens[b]), bv(ranks[a]), bv(lens[a]))) for a, b in zip(pos, pos[1:])]
        law('C18.empty-query-result-in-documented-order', z3.And(*inorder) if inorder else True, info)
        left = [i for i in range(n) if i not in set(pos)]
        # nothing left out comes before something returned
        cl = [z3.Not(before(bv(ranks[x]), bv(lens[x]), bv(ranks[y]), bv(lens[y]))) for x in left for y in pos
              if z3.is_expr(ranks[x]) or z3.is_expr(lens[x]) or z3.is_expr(ranks[y]) or z3.is_expr(lens[y])
              or (ranks[x], -lens[x]) > (ranks[y], -lens[y])]
        law('C18.empty-query-result-is-the-head-of-the-documented-order', z3.And(*cl) if cl else True, dict(info, left_out=left))

    def finish_violation(self, ctx, v):
        m = v.get('model') or {}
        n = v['info']['cached_paths']
        sym = v['info']['symbolic_positions']
        v['role'] = 'general'
        v['input_tree'] = {'n': n, 'ranks': [int(m.get('rank%d' % i, 0)) if i in sym else BASE_RANK for i in range(n)],
                           'lens': [max(1, int(m.get('len%d' % i, 1))) if i in sym else BASE_LEN for i in range(n)]}

    def realise(self, d):
        """a library whose cached path list is the input: one note per entry (a single heading of the given length, keys in list
        order), and a heading-less note whose j-th paragraph links every note with a reference count above j"""
        state = {}
        for i in range(d['n']):
            state['n%03d.md' % i] = '# ' + 'x' * d['lens'][i] + '\n'
        paras = []
        for j in range(max(d['ranks']) if d['ranks'] else 0):
            paras.append(' '.join('[x](n%03d)' % i for i in range(d['n']) if d['ranks'][i] > j))
        if paras:
            state['zzrefs.md'] = '\n\n'.join(paras) + '\n'
        return state

    def replay(self, v, driver):
        d = v['input_tree']
        script = [{'op': 'import', 'state': self.realise(d)}, {'op': 'global_search', 'query': ''}]
        res = driver.run(script, timeout=120)
        v['replay_script'] = script
        if any(isinstance(x, dict) and ('panic' in x or 'crash' in x) for x in res):
            v['replay_verdict'] = 'native: %s' % res[-1]
            return True
        out = res[1]
        allp = out['all']
        toks = [p['key'] for p in allp]
        ranks = [p['rank'] for p in allp]
        lens = [len(p['text'].encode()) for p in allp]
        got = [p['key'] for p in out['result']]
        if [r for r in ranks] != d['ranks'] or lens != d['lens']:
            v['replay_verdict'] = 'the library does not realise the cached list (ranks %s lens %s)' % (ranks[:6], lens[:6])
            return False
        failed = []
        def law(name, ok, info=None):
            if ok is not True and not (z3.is_expr(ok) and z3.is_true(z3.simplify(ok))):
                failed.append(name)
            return True
        self.judge(len(allp), got, toks, ranks, lens, law, {})
        v['replay_result'] = {'native_result': got[:CUT], 'ranks': ranks, 'lens': lens}
        v['replay_verdict'] = 'native laws violated: %s' % failed
        return v['law'] in failed
