"""Path exploration driver: DFS over decision prefixes, re-execution forking, process pool."""
import os, sys, time, json, traceback, multiprocessing as mp_
from engine import Ctx, Exec, Panic, Unsupported, BoundExceeded, Infeasible
import z3

_HZ = None          # harness instance, inherited by forked workers

def plain(x, depth=0):
    """picklable / JSON-able copy (z3 terms become strings)"""
    if depth > 80:
        return '...'
    if isinstance(x, dict):
        return {(k if isinstance(k, (str, int)) else str(k)): plain(v, depth + 1) for k, v in x.items()}
    if isinstance(x, (list, tuple, set, frozenset)):
        return [plain(v, depth + 1) for v in x]
    if isinstance(x, (str, int, float, bool)) or x is None:
        return x
    return str(x)

def run_one(hz, prefix):
    prog = hz.prog
    ctx = Ctx(prog, prefix, timeout_ms=hz.z3_timeout_ms, max_steps=hz.max_steps, max_depth=hz.max_depth)
    ctx.fresh_mode = getattr(hz, 'fresh_solver_mode', False)
    ex = Exec(prog, ctx)
    res = {'status': 'ok', 'detail': None, 'sample': None}
    t0 = time.time()
    try:
        res['sample'] = hz.run(ctx, ex)
    except Panic as e:
        res['status'] = 'panic'
        res['detail'] = (e.msg if isinstance(e.msg, str) else '<fmt>')
        res['where'] = e.where
        try:
            hz.on_panic(ctx, ex, e, res)
        except Unsupported as e2:
            res['status'] = 'unsupported'; res['detail'] = str(e2)[:300]
    except Unsupported as e:
        res['status'] = 'unsupported'; res['detail'] = str(e)[:300]
    except BoundExceeded as e:
        res['status'] = 'bound'; res['detail'] = str(e)[:300]
    except Infeasible:
        res['status'] = 'infeasible'
    except RecursionError:
        res['status'] = 'bound'; res['detail'] = 'python recursion'
    except Exception as e:
        res['status'] = 'engine-error'
        res['detail'] = (repr(e) + ' | ' + traceback.format_exc()[-1500:])
    fv = getattr(hz, 'finish_violation', None)
    if fv:
        for v in ctx.violations:
            try:
                fv(ctx, v)
            except Exception as e2:
                v['finish_error'] = repr(e2)
    ctx.violations = [plain(v) for v in ctx.violations]
    res['sample'] = plain(res.get('sample'))
    if getattr(ctx, 'tv', None) is not None:
        res['tv'] = plain(ctx.tv)
    res.update(trace=list(ctx.trace), pending=ctx.pending, steps=ctx.steps, queries=ctx.queries, solver_s=ctx.solver_s,
               covers=sorted(ctx.covers), fn_stmts=ctx.fn_stmts, natives=sorted(ctx.natives_hit),
               obligations=ctx.obligations, smt_obligations=ctx.smt_obligations, violations=ctx.violations,
               wall=time.time() - t0, pc_size=len(ctx.pc))
    if hz.keep_pc and ctx.pc:
        res['pc'] = [str(z3.simplify(c))[:200] for c in ctx.pc[:12]]
    return res

def _task(args):
    prefix, max_paths, deadline = args
    hz = _HZ
    work = [prefix]
    out = []
    while work and len(out) < max_paths and time.time() < deadline:
        pre = work.pop()
        r = run_one(hz, pre)
        work.extend(r.pop('pending'))
        out.append(r)
    return out, work

class Summary:
    def __init__(self):
        self.paths = 0
        self.by_status = {}
        self.steps = 0; self.queries = 0; self.solver_s = 0.0
        self.obligations = 0; self.smt_obligations = 0
        self.covers = set(); self.fn_stmts = {}; self.natives = set()
        self.violations = []; self.samples = []; self.unsupported = {}; self.panics = {}
        self.bound_hits = []; self.engine_errors = []
        self.pcs = []
        self.tv = []
        self.incomplete = False
        self.wall = 0.0

    def add(self, r):
        self.paths += 1
        st = r['status']
        self.by_status[st] = self.by_status.get(st, 0) + 1
        self.steps += r['steps']; self.queries += r['queries']; self.solver_s += r['solver_s']
        self.obligations += r['obligations']; self.smt_obligations += r['smt_obligations']
        self.covers.update(r['covers']); self.natives.update(r['natives'])
        for k, v in r['fn_stmts'].items():
            self.fn_stmts[k] = self.fn_stmts.get(k, 0) + v
        for v in r['violations']:
            v = dict(v); v['trace'] = r['trace']
            self.violations.append(v)
        if st == 'unsupported':
            self.unsupported[r['detail']] = self.unsupported.get(r['detail'], 0) + 1
        elif st == 'panic':
            k = (r['detail'] or '')[:120]
            self.panics[k] = self.panics.get(k, 0) + 1
        elif st == 'bound':
            self.bound_hits.append(r['detail'])
        elif st == 'engine-error':
            self.engine_errors.append(r['detail'])
        if r.get('sample') is not None and st == 'ok':
            # keep the richest few (by description length) so that the evidence shows non-trivial cases
            self.samples.append(r['sample'])
            if len(self.samples) > 64:
                self.samples.sort(key=lambda x: -len(str(x)))
                del self.samples[8:]
        if r.get('tv') is not None:
            self.tv.append(r['tv'])
        if r.get('pc') and len(self.pcs) < 5:
            self.pcs.append({'pc': r['pc'], 'status': st})

def explore(hz, workers=None, time_limit=600, max_paths=None, chunk=40, seed=0, progress=True):
    """Explore all paths of harness `hz`.  Returns Summary."""
    global _HZ
    _HZ = hz
    workers = workers or min(16, os.cpu_count() or 4)
    t0 = time.time()
    deadline = t0 + time_limit
    S = Summary()
    work = [[]]
    # sequential warm-up until the frontier is wide enough
    while work and len(work) < workers * 3 and time.time() < deadline:
        pre = work.pop(0)
        r = run_one(hz, pre)
        work.extend(r.pop('pending'))
        S.add(r)
        if max_paths and S.paths >= max_paths:
            break
    if work and (not max_paths or S.paths < max_paths):
        import random
        rnd = random.Random(seed)
        rnd.shuffle(work)
        ctxm = mp_.get_context('fork')
        with ctxm.Pool(workers) as pool:
            pending = []
            def submit(pre):
                pending.append(pool.apply_async(_task, ((pre, chunk, deadline),)))
            for pre in work:
                submit(pre)
            work = []
            last = time.time()
            while pending:
                nxt = []
                progressed = False
                for p in pending:
                    if p.ready():
                        progressed = True
                        out, left = p.get()
                        for r in out:
                            S.add(r)
                        if time.time() < deadline and not (max_paths and S.paths >= max_paths):
                            for pre in left:
                                nxt.append(pool.apply_async(_task, ((pre, chunk, deadline),)))
                        elif left:
                            S.incomplete = True
                    else:
                        nxt.append(p)
                pending = nxt
                if not progressed:
                    time.sleep(0.02)
                if progress and time.time() - last > 15:
                    last = time.time()
                    print('  [%s] %.0fs paths=%d pending_tasks=%d status=%s' % (hz.name, time.time() - t0, S.paths, len(pending), S.by_status), flush=True)
                if time.time() > deadline + 30:
                    S.incomplete = True
                    pool.terminate()
                    break
    elif work:
        S.incomplete = True
    S.wall = time.time() - t0
    return S
