"""Regenerate the MIR dumps of liwe / iwes from /repo's current working tree (cached by source hash)."""
import os, sys, glob, hashlib, subprocess, shutil, time

REPO = os.environ.get('VERIF_REPO', '/repo')
CACHE = os.environ.get('VERIF_CACHE') or os.path.join(os.path.dirname(os.path.dirname(os.path.abspath(__file__))), '.cache')

def src_hash(crates):
    h = hashlib.sha256()
    files = [os.path.join(REPO, 'Cargo.lock'), os.path.join(REPO, 'Cargo.toml')]
    for c in crates:
        files += sorted(glob.glob(os.path.join(REPO, 'crates', c, 'src', '**', '*.rs'), recursive=True))
        files.append(os.path.join(REPO, 'crates', c, 'Cargo.toml'))
    for f in files:
        h.update(f.encode()); h.update(open(f, 'rb').read())
    return h.hexdigest()

def dump(crate, deps=()):
    os.makedirs(CACHE, exist_ok=True)
    out = os.path.join(CACHE, crate + '.mir')
    stamp = out + '.hash'
    hv = src_hash((crate,) + tuple(deps))
    if os.path.exists(out) and os.path.exists(stamp) and open(stamp).read() == hv:
        return out, False
    tdir = os.path.join(CACHE, 'mir')
    for d in glob.glob(os.path.join(tdir, 'debug', '.fingerprint', crate + '-*')):
        shutil.rmtree(d, ignore_errors=True)
    env = dict(os.environ, CARGO_NET_OFFLINE='true')
    t0 = time.time()
    p = subprocess.run(['cargo', '+nightly', 'rustc', '--offline', '-p', crate, '--lib', '--target-dir', tdir, '--',
                        '-Zunpretty=mir', '-C', 'debug-assertions=off', '-C', 'overflow-checks=on'],
                       cwd=REPO, env=env, stdout=subprocess.PIPE, stderr=subprocess.PIPE, text=True)
    if p.returncode != 0 or not p.stdout.strip():
        sys.stderr.write(p.stderr[-3000:])
        raise SystemExit('mirdump: cargo rustc failed for ' + crate)
    open(out, 'w').write(p.stdout)
    open(stamp, 'w').write(hv)
    sys.stderr.write('mirdump: %s regenerated in %.1fs (%d lines)\n' % (crate, time.time() - t0, p.stdout.count('\n')))
    return out, True

if __name__ == '__main__':
    for c in sys.argv[1:] or ['liwe']:
        print(dump(c, deps=('liwe',) if c != 'liwe' else ()))
