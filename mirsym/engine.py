"""MIR symbolic executor: path forking by re-execution, z3 for feasibility and laws."""
import re, sys, time, os
import z3
import mirparse as mp
from mirparse import INT_TYPES, strip_generics
from rsrc import split_top, match_angle
from values import *

sys.setrecursionlimit(200000)

class Panic(Exception):
    def __init__(self, msg, where=None):
        Exception.__init__(self, msg)
        self.msg, self.where = msg, where

class Unsupported(Exception):
    pass

class BoundExceeded(Exception):
    pass

class Infeasible(Exception):
    pass

QUERY_CACHE = {}

# ------------------------------------------------------------------ callee parsing
class Callee:
    __slots__ = ('text', 'selfty', 'head', 'trait', 'method', 'generic_self', 'path')

_callee_cache = {}

def ty_head(t):
    """last path segment of a type, without refs / lifetimes / generics"""
    t = t.strip()
    while True:
        m = re.match(r"^&\s*('\w+\s+)?(mut\s+)?", t)
        if m and m.end() > 0:
            t = t[m.end():]
            continue
        break
    if t.startswith('[') :
        return 'slice'
    if t.startswith('('):
        return 'tuple'
    if t.startswith('{closure@'):
        return 'closure'
    if t.startswith('dyn ') or t.startswith('impl '):
        return t.split('<')[0]
    if t.startswith('<impl '):
        inner = t[6:-1]
        return ty_head(inner)
    t = strip_generics(t)
    return t.split('::')[-1].strip()

def _keep_segs(segs):
    out = []
    for i, x in enumerate(segs):
        if x.startswith('<'):
            if x.startswith('<impl') and out and out[-1][:1].islower() and i + 1 < len(segs):
                out.append(x)
            continue
        out.append(x)
    return out

def _split_path(s):
    """split a path at top-level '::'"""
    out, depth, cur = [], 0, []
    i, n = 0, len(s)
    while i < n:
        ch = s[i]
        if ch in '<([{':
            depth += 1
        elif ch in ')]}' or (ch == '>' and s[i - 1] not in '-='):
            depth -= 1
        if depth == 0 and s.startswith('::', i):
            out.append(''.join(cur)); cur = []; i += 2
            continue
        cur.append(ch); i += 1
    out.append(''.join(cur))
    return [x for x in out if x != '']

def parse_callee(text):
    c = _callee_cache.get(text)
    if c is not None:
        return c
    c = Callee()
    c.text = text
    c.trait = None
    c.selfty = None
    s = text.strip()
    if s.startswith('<'):
        k = match_angle(s, 0)
        inner = s[1:k]
        rest = s[k + 1:]
        # top-level ' as '
        depth = 0
        pos = -1
        for i, ch in enumerate(inner):
            if ch in '<([{':
                depth += 1
            elif ch in ')]}' or (ch == '>' and inner[i - 1] not in '-='):
                depth -= 1
            elif depth == 0 and inner.startswith(' as ', i):
                pos = i
        if pos >= 0:
            c.selfty = inner[:pos].strip()
            c.trait = ty_head(inner[pos + 4:])
        else:
            c.selfty = inner.strip()
        segs = _keep_segs(_split_path(rest))
        c.method = segs[-1] if segs else ''
        c.path = segs
    else:
        segs = _keep_segs(_split_path(s))
        c.method = segs[-1]
        c.selfty = segs[-2] if len(segs) >= 2 else None
        c.path = segs
    c.head = ty_head(c.selfty) if c.selfty else None
    h = c.head
    c.generic_self = bool(h) and (h in ('Self',) or re.fullmatch(r'[A-Z]\w?', h) is not None or h.startswith('impl ') or h.startswith('dyn '))
    _callee_cache[text] = c
    return c

# ------------------------------------------------------------------ program
def default_for_type(ty):
    ty = ty.strip()
    base = ty.split('<')[0].split('::')[-1]
    if base == 'Option': return NONE()
    if base in ('HashMap', 'BTreeMap'): return MapV(base)
    if base in ('HashSet', 'BTreeSet'): return SetV(base)
    if base in ('Vec', 'VecDeque'): return VecV()
    if base == 'String': return ''
    if base == 'bool': return False
    if re.fullmatch(r'[iu](8|16|32|64|128|size)', base): return 0
    if base in ('Mutex', 'RwLock', 'RefCell', 'Cell') and '<' in ty:
        return Struct(base, [Cell(default_for_type(ty[ty.index('<') + 1:-1]))], None)
    if base == 'Arc' and '<' in ty:
        return ArcV(Cell(default_for_type(ty[ty.index('<') + 1:-1])))
    return Opaque('default:' + ty)

class Program:
    """All MIR bodies of the crates under test + type tables + native models."""
    def __init__(self, mir_files, ttables):
        self.fns = {}
        self.const_lits = {}       # named constants with a literal initialiser: last path segment -> parsed literal
        for f in mir_files:
            self.fns.update(mp.load(f))
            for m in re.finditer(r'^(?:const|static) ([^\s:]+(?:::[^\s:]+)*): [^=\n]+ = const ([^\n]+);$', open(f).read(), re.M):
                self.const_lits[m.group(1).rsplit('::', 1)[-1]] = mp.parse_const(m.group(2))
        self.tt = ttables          # list of TypeTable
        self.impl_methods = {}     # (selfhead, method) -> [(trait, MirFn)]
        self.trait_defaults = {}   # (trait, method) -> MirFn
        self.free = {}             # name -> MirFn
        self.closures = {}         # span -> MirFn
        self.natives = {}          # (head or '*', method) -> fn
        self.trait_natives = {}    # (trait, method) -> fn
        self.overrides = {}        # callee-text regex -> fn (harness-supplied stubs)
        self.enum_cache = {}
        self._index()

    def _index(self):
        for name, f in self.fns.items():
            if f.kind != 'fn':
                continue
            if f.closure_span:
                self.closures[f.closure_span] = f
                continue
            m = re.search(r'<impl at ([^:>]+):(\d+):(\d+): \d+:\d+>::(\w+)$', name)
            if m:
                file, line, col, method = m.group(1), int(m.group(2)), int(m.group(3)), m.group(4)
                trait, selfhead, full, derived = None, None, None, False
                for tt in self.tt:
                    for root in tt.roots:
                        p = os.path.join(root, file)
                        if os.path.exists(p):
                            trait, selfhead = tt.impl_header(p, line, col)
                            derived = not tt.files[p].split('\n')[line - 1][col - 1:].startswith('impl')
                            if selfhead:
                                sh = selfhead.lstrip('&')
                                cands = tt.by_last.get(sh, [])
                                if len(cands) == 1:
                                    full = cands[0]
                                elif cands:
                                    mod = tt.module_of(p)
                                    same = [c for c in cands if c.rsplit('::', 1)[0] == mod]
                                    full = same[0] if same else None
                            break
                    if selfhead:
                        break
                if selfhead:
                    self.impl_methods.setdefault((selfhead.lstrip('&'), method), []).append((trait, f, full, derived))
                continue
            if '<impl at' in name or '{closure' in name or '{constant' in name:
                continue
            segs = name.split('::')
            if len(segs) == 1:
                self.free[name] = f
            else:
                # trait default method  (mod::Trait::method)  or nested fn
                self.trait_defaults[(segs[-2], segs[-1])] = f
                self.free.setdefault(segs[-1], f)

    def closure_arity(self, span):
        f = self.closures.get(span)
        if f is None:
            return None
        a = getattr(f, '_arity', None)
        if a is None:
            idx = [int(x) for x in re.findall(r'\(\*_1\)\.(\d+): ', f.raw[1])] + [int(x) for x in re.findall(r'\(_1\.(\d+): ', f.raw[1])]
            a = f._arity = (max(idx) + 1) if idx else 0
        return a

    def parsed(self, fn):
        """parse a body on first use; repair closure aggregates whose captures the MIR pretty-printer
        collapsed (two captured places with the same variable name print as one field)"""
        if fn.parsed:
            return fn
        mp.parse_body(fn)
        for bb, (stmts, term) in fn.blocks.items():
            for i, st in enumerate(stmts):
                if st[0] == 'assign' and st[2][0] == 'closure':
                    span, ops = st[2][1], st[2][2]
                    need = self.closure_arity(span)
                    if need is not None and need > len(ops):
                        prev = []
                        j = i - 1
                        while j >= 0 and len(prev) < need:
                            p = stmts[j]
                            if p[0] == 'assign' and not p[1][1]:
                                prev.append(p[1][0])
                            else:
                                break
                            j -= 1
                        prev.reverse()
                        if len(prev) != need:
                            raise Unsupported('cannot reconstruct captures of %s in %s' % (span, fn.name))
                        printed = {o[1][0]: o for o in ops if o[0] in ('copy', 'move') and not o[1][1]}
                        newops = [printed.get(l, ('move', (l, ()))) for l in prev]
                        if not all(o in newops for o in ops):
                            raise Unsupported('capture reconstruction mismatch for %s in %s' % (span, fn.name))
                        stmts[i] = ('assign', st[1], ('closure', span, newops))
        return fn

    EXT_PREFIXES = ('lsp_types', 'pulldown_cmark', 'std', 'core', 'alloc', 'serde_json', 'lsp_server', 'url', 'relative_path', 'itertools', 'rayon')

    def bare_variant(self, vname):
        """an enum variant printed without its enum path (glob imports): unique lookup over all tables"""
        c = getattr(self, '_bare', None)
        if c is None:
            c = self._bare = {}
            for tt in self.tt:
                for full, variants in tt.enums.items():
                    for i, (vn, kind, fl) in enumerate(variants):
                        c.setdefault(vn, []).append((full, i))
        hits = c.get(vname, [])
        return hits[0] if len(hits) == 1 else None

    def tables_for(self, printed):
        first = printed.strip().lstrip('&').split('::')[0]
        if first in self.EXT_PREFIXES:
            return [tt for tt in self.tt if getattr(tt, 'prefix', None) == first]
        return [tt for tt in self.tt if getattr(tt, 'prefix', None) is None] + [tt for tt in self.tt if getattr(tt, 'prefix', None) is not None]

    def enum_info(self, printed):
        r = self.enum_cache.get(printed)
        if r is None:
            for tt in self.tables_for(printed):
                full = tt.resolve(printed)
                if full and full in tt.enums:
                    r = (full, tt.enums[full]); break
                if full and full in tt.structs:
                    r = (full, None); break
            self.enum_cache[printed] = r if r is not None else (None, None)
            r = self.enum_cache[printed]
        return r

    def struct_fields(self, printed):
        for tt in self.tables_for(printed):
            full = tt.resolve(printed)
            if full and full in tt.structs:
                return full, tt.structs[full]
        return None, None

    def mk_struct(self, printed, **kw):
        full, info = self.struct_fields(printed)
        assert info and info[0] == 'named', printed
        names = [n for n, _ in info[1]]
        assert set(kw) == set(names), (printed, names, list(kw))
        return Struct(full, [Cell(kw[n]) for n in names], names)

    def mk_struct_lenient(self, printed, **kw):
        """like mk_struct, but fields the harness does not know (added by a later change to the code) get the value
        their type's Default would give, so a harness keeps driving a struct that grew a field"""
        full, info = self.struct_fields(printed)
        assert info and info[0] == 'named', printed
        for n, ty in info[1]:
            if n not in kw:
                kw[n] = default_for_type(ty)
        names = [n for n, _ in info[1]]
        return Struct(full, [Cell(kw[n]) for n in names], names)

    def mk_enum(self, printed, vname, *args):
        full, variants = self.enum_info(printed)
        assert variants, printed
        for i, (vn, kind, fl) in enumerate(variants):
            if vn == vname:
                return Enum(full, i, vn, [Cell(a) for a in args])
        raise KeyError(vname)

    def full_type(self, printed):
        printed = strip_generics(printed).lstrip('&').strip()
        printed = re.sub(r"^('\w+ )?(mut )?", '', printed)
        for tt in self.tables_for(printed):
            r = tt.resolve(printed)
            if r:
                return r
        return None

    def pick(self, cands, trait, want_full):
        cs = [e for e in cands if e[0] == trait] if trait else ([e for e in cands if e[0] is None] or cands)
        if len(cs) > 1 and want_full:
            cs2 = [e for e in cs if e[2] == want_full]
            if cs2:
                cs = cs2
        if len(cs) > 1 and want_full is None:
            return None
        return cs[0] if cs else None

    def resolve_local(self, c, args):
        """find the MIR body for a call, or None.  Returns (MirFn, derived_trait or None)"""
        head = c.head
        want_full = None
        if c.generic_self or head in (None,):
            rt = runtime_full(args[0]) if args else None
            if rt:
                head = rt.split('::')[-1]
                want_full = rt
        elif c.selfty:
            want_full = self.full_type(c.selfty)
        if head is not None:
            head = head.lstrip('&')
        cands = self.impl_methods.get((head, c.method))
        if cands:
            e = self.pick(cands, c.trait, want_full)
            if e is not None:
                return e
        if c.trait:
            f = self.trait_defaults.get((c.trait, c.method))
            if f is not None:
                return (c.trait, f, None, False)
            if args:
                rt = runtime_full(args[0])
                if rt:
                    e = self.pick(self.impl_methods.get((rt.split('::')[-1], c.method), []), c.trait, rt)
                    if e is not None:
                        return e
            return None
        if c.selfty is None or (head, c.method) not in self.impl_methods:
            if len(c.path) >= 2:
                f = self.trait_defaults.get((c.path[-2], c.method))
                if f is not None:
                    return (c.path[-2], f, None, False)
            f = self.free.get(c.method)
            if f is not None and f.name.split('::')[-1] == c.method and (c.selfty is None or not c.selfty[:1].isupper()):
                return (None, f, None, False)
        return None

def runtime_full(v):
    while isinstance(v, Ref):
        v = v.cell.v
    if isinstance(v, (Struct, Enum)):
        return v.ty
    return None

def runtime_head(v):
    r = runtime_full(v)
    return r.split('::')[-1] if r else None

# ------------------------------------------------------------------ path context
class Ctx:
    """One path. Decisions beyond `prefix` are taken first-feasible; alternatives are queued."""
    def __init__(self, prog, prefix=(), timeout_ms=10000, max_steps=2_000_000, max_depth=400):
        self.prog = prog
        self.prefix = list(prefix)
        self.pos = 0
        self.trace = []
        self.pending = []
        self.solver = z3.Solver()
        self.solver.set('timeout', timeout_ms)
        self.timeout_ms = timeout_ms
        self.fresh_mode = False
        self.pc_keys = []
        self.cache_hits = 0
        self.pc = []
        self.queries = 0
        self.solver_s = 0.0
        self.steps = 0
        self.max_steps = max_steps
        self.depth = 0
        self.max_depth = max_depth
        self.nsym = 0
        self.syms = {}
        self.fn_stmts = {}
        self.natives_hit = set()
        self.notes = []
        self.covers = set()
        self.obligations = 0
        self.smt_obligations = 0
        self.violations = []
        self.local_branches = 0

    # --- symbolic inputs
    def sym_bv(self, name, width):
        v = z3.BitVec(name, width)
        self.syms[name] = v
        return v

    def sym_bool(self, name):
        v = z3.Bool(name)
        self.syms[name] = v
        return v

    def assume(self, cond):
        if isinstance(cond, bool):
            if not cond:
                raise Infeasible()
            return
        self.pc.append(cond)
        self.solver.add(cond)

    def query_key(self, extra):
        """structural key of (path condition, extra): identical queries are answered once per worker process"""
        while len(self.pc_keys) < len(self.pc):
            self.pc_keys.append(self.pc[len(self.pc_keys)].sexpr())
        del self.pc_keys[len(self.pc):]
        return (frozenset(self.pc_keys), extra.sexpr() if extra is not None else None)

    def fresh_solver(self, extra=None):
        sv = z3.SolverFor('QF_BV')
        sv.set('timeout', self.timeout_ms)
        sv.add(*self.pc)
        if extra is not None:
            sv.add(extra)
        return sv

    def check(self, extra=None):
        t0 = time.time()
        self.queries += 1
        if self.fresh_mode:
            key = self.query_key(extra)
            r = QUERY_CACHE.get(key)
            if r is None:
                r = self.fresh_solver(extra).check()
                if len(QUERY_CACHE) < 2_000_000:
                    QUERY_CACHE[key] = r
            else:
                self.cache_hits += 1
        else:
            if extra is not None:
                self.solver.push()
                self.solver.add(extra)
            r = self.solver.check()
            if extra is not None:
                self.solver.pop()
        self.solver_s += time.time() - t0
        if r == z3.unknown:
            raise Unsupported('z3 unknown/timeout')
        return r == z3.sat

    def model(self, extra=None):
        if self.fresh_mode:
            fs = self.fresh_solver(extra)
            self.queries += 1
            if fs.check() != z3.sat:
                return None
            md = fs.model()
            m = {}
            for name, v in self.syms.items():
                val = md.eval(v, model_completion=True)
                m[name] = val.as_long() if z3.is_bv_value(val) else z3.is_true(val)
            return m
        if extra is not None:
            self.solver.push(); self.solver.add(extra)
        r = self.solver.check()
        self.queries += 1
        m = None
        if r == z3.sat:
            md = self.solver.model()
            m = {}
            for name, v in self.syms.items():
                val = md.eval(v, model_completion=True)
                if z3.is_bv_value(val):
                    m[name] = val.as_long()
                else:
                    m[name] = z3.is_true(val)
        if extra is not None:
            self.solver.pop()
        return m

    def decide(self, alts, label=None):
        """alts: list of constraints (z3 Bool or None=unconstrained). Returns chosen index."""
        if self.pos < len(self.prefix):
            i = self.prefix[self.pos]
        else:
            feas = []
            for k, c in enumerate(alts):
                if c is None or self.check(c):
                    feas.append(k)
            if not feas:
                raise Infeasible()
            i = feas[0]
            for j in feas[1:]:
                self.pending.append(self.trace + [j])
        self.pos += 1
        self.trace.append(i)
        c = alts[i]
        if c is not None:
            self.pc.append(c)
            self.solver.add(c)
        return i

    def choose(self, n, label=None):
        return self.decide([None] * n, label)

    def branch(self, cond):
        """Python bool for a possibly symbolic condition (forks)."""
        if isinstance(cond, bool):
            return cond
        s = z3.simplify(cond)
        if z3.is_true(s):
            return True
        if z3.is_false(s):
            return False
        return self.decide([s, z3.Not(s)]) == 0

    def concretize(self, v, candidates):
        """fork a symbolic integer over explicit candidate values (+ 'none of them' -> Infeasible)"""
        if isinstance(v, int):
            return v
        s = z3.simplify(v)
        if z3.is_bv_value(s):
            return s.as_long()
        cands = list(candidates)
        i = self.decide([s == c for c in cands] + [z3.And(*[s != c for c in cands]) if cands else None])
        if i == len(cands):
            return None
        return cands[i]

    def cover(self, name):
        self.covers.add(name)

    def forall(self, thunk, limit=10000):
        """Explore every branch of a PURE sub-computation (no writes to state that outlives it) under the current
        path condition, without forking the enclosing path: local decisions use solver push/pop.  Laws checked inside
        see the local constraints.  Returns the list of thunk results (one per local branch)."""
        saved = (self.prefix, self.pos, self.trace, self.pending, len(self.pc))
        results = []
        work = [[]]
        n = 0
        try:
            while work:
                pre = work.pop()
                n += 1
                if n > limit:
                    raise BoundExceeded('forall: more than %d local branches' % limit)
                self.solver.push()
                self.prefix, self.pos, self.trace, self.pending = pre, 0, [], []
                try:
                    results.append(thunk())
                except Infeasible:
                    pass
                finally:
                    work.extend(self.pending)
                    self.solver.pop()
                    del self.pc[saved[4]:]
                    del self.pc_keys[saved[4]:]
                self.local_branches += 1
        finally:
            self.prefix, self.pos, self.trace, self.pending = saved[0], saved[1], saved[2], saved[3]
        return results

    def law(self, name, formula, info=None):
        """Proof obligation on this path: pc => formula.  Records a violation (with model) if pc & ~formula is sat."""
        self.obligations += 1
        if formula is True:
            return True
        if formula is False:
            m = self.model()
            self.violations.append({'law': name, 'model': m, 'info': info})
            return False
        f = z3.simplify(formula)
        if z3.is_true(f):
            return True
        neg = z3.Not(f)
        self.smt_obligations += 1
        t0 = time.time()
        if self.fresh_mode:
            key = self.query_key(neg)
            r = QUERY_CACHE.get(key)
            self.queries += 1
            if r == z3.unsat:
                self.cache_hits += 1
                self.solver_s += time.time() - t0
                return True
            fs = self.fresh_solver(neg)
            r = fs.check()
            if len(QUERY_CACHE) < 2_000_000:
                QUERY_CACHE[key] = r
            self.solver_s += time.time() - t0
            if r == z3.unknown:
                raise Unsupported('z3 unknown on law ' + name)
            if r == z3.sat:
                md = fs.model()
                m = {}
                for nm, v in self.syms.items():
                    val = md.eval(v, model_completion=True)
                    m[nm] = val.as_long() if z3.is_bv_value(val) else z3.is_true(val)
                self.violations.append({'law': name, 'model': m, 'info': info})
                return False
            return True
        self.solver.push(); self.solver.add(neg)
        r = self.solver.check()
        self.queries += 1
        if r == z3.sat:
            md = self.solver.model()
            m = {}
            for nm, v in self.syms.items():
                val = md.eval(v, model_completion=True)
                m[nm] = val.as_long() if z3.is_bv_value(val) else z3.is_true(val)
            self.solver.pop()
            self.solver_s += time.time() - t0
            self.violations.append({'law': name, 'model': m, 'info': info})
            return False
        self.solver.pop()
        self.solver_s += time.time() - t0
        if r == z3.unknown:
            raise Unsupported('z3 unknown on law ' + name)
        return True

# ------------------------------------------------------------------ scalars
def width_of(ty):
    if ty is None:
        return None
    t = INT_TYPES.get(ty.strip())
    return t

def to_bv(v, w):
    if isinstance(v, bool):
        return z3.BitVecVal(1 if v else 0, w)
    if isinstance(v, int):
        return z3.BitVecVal(v, w)
    if z3.is_bool(v):
        return z3.If(v, z3.BitVecVal(1, w), z3.BitVecVal(0, w))
    return v

def wrap(v, w, signed):
    v &= (1 << w) - 1
    if signed and v >= 1 << (w - 1):
        v -= 1 << w
    return v

def binop(op, a, b, ty):
    wi = width_of(ty)
    if not is_sym(a) and not is_sym(b):
        if isinstance(a, bool) or isinstance(b, bool) or ty == 'bool':
            a, b = bool(a), bool(b)
            if op == 'Eq': return a == b
            if op == 'Ne': return a != b
            if op == 'BitAnd': return a and b
            if op == 'BitOr': return a or b
            if op == 'BitXor': return a != b
            if op == 'Lt': return a < b
            if op == 'Le': return a <= b
            if op == 'Gt': return a > b
            if op == 'Ge': return a >= b
            raise Unsupported('bool binop ' + op)
        if isinstance(a, int) and isinstance(b, int):
            if op == 'Eq': return a == b
            if op == 'Ne': return a != b
            if op == 'Lt': return a < b
            if op == 'Le': return a <= b
            if op == 'Gt': return a > b
            if op == 'Ge': return a >= b
            w, sg = wi if wi else (64, False)
            if op in ('Add', 'AddUnchecked'): return wrap(a + b, w, sg)
            if op in ('Sub', 'SubUnchecked'): return wrap(a - b, w, sg)
            if op in ('Mul', 'MulUnchecked'): return wrap(a * b, w, sg)
            if op == 'Div':
                if b == 0: raise Panic('attempt to divide by zero')
                q = abs(a) // abs(b)
                return wrap(q if (a < 0) == (b < 0) else -q, w, sg)
            if op == 'Rem':
                if b == 0: raise Panic('attempt to calculate the remainder with a divisor of zero')
                r = abs(a) % abs(b)
                return wrap(r if a >= 0 else -r, w, sg)
            if op == 'BitAnd': return a & b
            if op == 'BitOr': return a | b
            if op == 'BitXor': return wrap(a ^ b, w, sg)
            if op in ('Shl', 'ShlUnchecked'): return wrap(a << (b % w), w, sg)
            if op in ('Shr', 'ShrUnchecked'): return wrap(a >> (b % w), w, sg)
            if op == 'Cmp': return Enum('Ordering', (a > b) - (a < b) + 1, ['Less', 'Equal', 'Greater'][(a > b) - (a < b) + 1], [])
        if isinstance(a, (str, float)) and op in ('Eq', 'Ne', 'Lt', 'Le', 'Gt', 'Ge'):
            return {'Eq': a == b, 'Ne': a != b, 'Lt': a < b, 'Le': a <= b, 'Gt': a > b, 'Ge': a >= b}[op]
        raise Unsupported('binop %s on %r %r' % (op, a, b))
    # symbolic
    if (is_sym(a) and z3.is_bool(a)) or (is_sym(b) and z3.is_bool(b)):
        a = a if is_sym(a) else z3.BoolVal(bool(a))
        b = b if is_sym(b) else z3.BoolVal(bool(b))
        if op == 'Eq': return a == b
        if op == 'Ne': return a != b
        if op == 'BitAnd': return z3.And(a, b)
        if op == 'BitOr': return z3.Or(a, b)
        if op == 'BitXor': return z3.Xor(a, b)
        raise Unsupported('sym bool binop ' + op)
    w = a.size() if is_sym(a) else b.size()
    sg = wi[1] if wi else False
    a, b = to_bv(a, w), to_bv(b, w)
    if op == 'Eq': return a == b
    if op == 'Ne': return a != b
    if op == 'Lt': return (a < b) if sg else z3.ULT(a, b)
    if op == 'Le': return (a <= b) if sg else z3.ULE(a, b)
    if op == 'Gt': return (a > b) if sg else z3.UGT(a, b)
    if op == 'Ge': return (a >= b) if sg else z3.UGE(a, b)
    if op in ('Add', 'AddUnchecked'): return a + b
    if op in ('Sub', 'SubUnchecked'): return a - b
    if op in ('Mul', 'MulUnchecked'): return a * b
    if op == 'BitAnd': return a & b
    if op == 'BitOr': return a | b
    if op == 'BitXor': return a ^ b
    if op == 'Div': return (a / b) if sg else z3.UDiv(a, b)
    if op == 'Rem': return z3.SRem(a, b) if sg else z3.URem(a, b)
    if op in ('Shl', 'ShlUnchecked'): return a << b
    if op in ('Shr', 'ShrUnchecked'): return (a >> b) if sg else z3.LShR(a, b)
    raise Unsupported('sym binop ' + op)

def ovfop(op, a, b, ty):
    w, sg = width_of(ty) or (64, False)
    if not is_sym(a) and not is_sym(b):
        r = {'Add': a + b, 'Sub': a - b, 'Mul': a * b}[op]
        lo, hi = (-(1 << (w - 1)), (1 << (w - 1)) - 1) if sg else (0, (1 << w) - 1)
        return wrap(r, w, sg), not (lo <= r <= hi)
    a, b = to_bv(a, w), to_bv(b, w)
    if op == 'Add':
        ok = z3.And(z3.BVAddNoOverflow(a, b, sg), z3.BVAddNoUnderflow(a, b)) if sg else z3.BVAddNoOverflow(a, b, False)
        return a + b, z3.Not(ok)
    if op == 'Sub':
        ok = z3.And(z3.BVSubNoOverflow(a, b), z3.BVSubNoUnderflow(a, b, True)) if sg else z3.UGE(a, b)
        return a - b, z3.Not(ok)
    ok = z3.And(z3.BVMulNoOverflow(a, b, sg), z3.BVMulNoUnderflow(a, b)) if sg else z3.BVMulNoOverflow(a, b, False)
    return a * b, z3.Not(ok)

def cast_int(v, src_ty, dst_ty):
    dw = width_of(dst_ty)
    if dw is None:
        if dst_ty == 'bool':
            return v
        raise Unsupported('cast to ' + dst_ty)
    w, sg = dw
    if isinstance(v, bool):
        return int(v)
    if isinstance(v, int):
        return wrap(v, w, sg)
    if isinstance(v, float):
        return wrap(int(v), w, sg)
    if z3.is_bool(v):
        return z3.If(v, z3.BitVecVal(1, w), z3.BitVecVal(0, w))
    sw = v.size()
    ssg = (width_of(src_ty) or (sw, False))[1]
    if sw == w:
        return v
    if sw > w:
        return z3.Extract(w - 1, 0, v)
    return z3.SignExt(w - sw, v) if ssg else z3.ZeroExt(w - sw, v)

# ------------------------------------------------------------------ interpreter
class Exec:
    def __init__(self, prog, ctx):
        self.prog = prog
        self.ctx = ctx

    # ---- places
    def place_cell(self, frame, place, fn):
        local, projs = place
        cell = frame.get(local)
        if cell is None:
            cell = frame[local] = Cell()
        for p in projs:
            k = p[0]
            v = cell.v
            if k == 'deref':
                t = type(v)
                if t is Ref or t is BoxV or t is ArcV:
                    cell = v.cell
                else:
                    raise Unsupported('deref of %r in %s' % (v, fn.name))
            elif k == 'field':
                t = type(v)
                if t is Struct or t is Enum or t is Tup or t is Closure:
                    try:
                        cell = v.f[p[1]]
                    except IndexError:
                        raise Unsupported('field %d of %r in %s' % (p[1], v, fn.name))
                elif v is None:
                    # partially initialised aggregate (tuple built field by field)
                    n = p[1] + 1
                    cell.v = v = Tup([Cell() for _ in range(max(n, 2))])
                    cell = v.f[p[1]]
                else:
                    cell = self.native_field(v, p[1], fn)
            elif k == 'downcast':
                pass
            elif k == 'index':
                idx = frame[p[1]].v
                items = self.items_of(v, fn)
                idx = self.ctx.concretize(idx, range(len(items)))
                if idx is None or idx >= len(items):
                    raise Panic('index out of bounds')
                cell = items[idx]
            elif k == 'cindex':
                items = self.items_of(v, fn)
                i = p[1]
                cell = items[len(items) - i] if p[2] else items[i]
            else:
                raise Unsupported('projection ' + k)
        return cell

    def native_field(self, v, i, fn):
        raise Unsupported('field %d of native %r in %s' % (i, v, fn.name))

    def items_of(self, v, fn=None):
        t = type(v)
        if t is VecV:
            return v.items
        if t is SliceV:
            return v.items
        if t is Ref:
            return self.items_of(v.cell.v, fn)
        if t is Tup:
            return v.f
        raise Unsupported('index into %r' % (v,))

    def operand(self, frame, op, fn):
        k = op[0]
        if k == 'copy':
            return copy_val(self.place_cell(frame, op[1], fn).v)
        if k == 'move':
            return self.place_cell(frame, op[1], fn).v
        return self.const(op[1], fn)

    def const(self, c, fn):
        k = c[0]
        if k == 'int':
            return c[1]
        if k == 'bool':
            return c[1]
        if k == 'str':
            return Ref(Cell(c[1]))
        if k == 'unit':
            return UNIT
        if k == 'zst':
            t = c[1]
            if t.startswith('{closure@'):
                return Closure(t[1:t.index('}')], [])
            m = re.match(r'.*\{(.+)\}$', t, re.S)
            if m:
                return FnItem(m.group(1))
            return Opaque('zst:' + t)
        if k == 'fnitem':
            return FnItem(c[1])
        if k == 'promoted':
            pf = self.prog.fns.get(fn.name + '::promoted[%d]' % c[1])
            if pf is None:
                raise Unsupported('promoted %d of %s' % (c[1], fn.name))
            return self.run_fn(pf, [])
        if k == 'float':
            return c[1]
        if k == 'bytes':
            return Ref(Cell(VecV([Cell(b) for b in c[1]])))
        if k == 'other':
            t = c[1]
            last = strip_generics(t).rsplit('::', 1)[-1]
            if re.fullmatch(r'[A-Z][A-Z0-9_]*', last):
                # a named constant of the crate: literal initialiser, or a body of its own
                if last in self.prog.const_lits:
                    return self.const(self.prog.const_lits[last], fn)
                for nm, body in self.prog.fns.items():
                    if body.kind == 'const' and (nm == last or nm.endswith('::' + last)):
                        return self.run_fn(body, [])
            m = re.fullmatch(r'(.+?)::(\w+)', strip_generics(t))
            if m:
                full, variants = self.prog.enum_info(m.group(1))
                if variants:
                    for i, (vn, kind, fl) in enumerate(variants):
                        if vn == m.group(2):
                            return Enum(full, i, vn, [])
                if m.group(2) in ('None',):
                    return NONE()
                if m.group(1).endswith('Ordering'):
                    return ordering({'Less': -1, 'Equal': 0, 'Greater': 1}[m.group(2)])
            if t.startswith('{alloc') or t.startswith('&'):
                return Opaque('const:' + t)
            return Opaque('const:' + t)
        raise Unsupported('const ' + repr(c))

    # ---- rvalues
    def rvalue(self, frame, rv, fn):
        k = rv[0]
        if k == 'use':
            return self.operand(frame, rv[1], fn)
        if k == 'ref':
            return Ref(self.place_cell(frame, rv[1], fn))
        if k == 'adt':
            return self.aggregate(frame, rv, fn)
        if k == 'disc':
            v = self.place_cell(frame, rv[1], fn).v
            if type(v) is Enum:
                return v.vi
            if type(v) is LazyEnum:
                return v.force_disc(self.ctx)
            raise Unsupported('discriminant of %r' % (v,))
        if k == 'tuple':
            ops = rv[1]
            if not ops:
                return UNIT
            return Tup([Cell(self.operand(frame, o, fn)) for o in ops])
        if k == 'bin':
            a = self.operand(frame, rv[2], fn)
            b = self.operand(frame, rv[3], fn)
            if type(a) is Enum and type(b) is Enum:       # fieldless enum compared by discriminant
                a, b = a.vi, b.vi
            return binop(rv[1], a, b, rv[4])
        if k == 'ovf':
            a = self.operand(frame, rv[2], fn)
            b = self.operand(frame, rv[3], fn)
            r, o = ovfop(rv[1], a, b, rv[4])
            return Tup([Cell(r), Cell(o)])
        if k == 'un':
            a = self.operand(frame, rv[2], fn)
            if rv[1] == 'Not':
                if isinstance(a, bool):
                    return not a
                if isinstance(a, int):
                    w, sg = width_of(rv[3]) or (64, False)
                    return wrap(~a, w, sg)
                if z3.is_bool(a):
                    return z3.Not(a)
                return ~a
            if rv[1] == 'Neg':
                if isinstance(a, int):
                    w, sg = width_of(rv[3]) or (64, True)
                    return wrap(-a, w, sg)
                return -a
            if rv[1] == 'PtrMetadata':
                v = a
                while type(v) is Ref:
                    v = v.cell.v
                if isinstance(v, str):
                    return len(v.encode())
                return len(self.items_of(v, fn))
        if k == 'cast':
            v = self.operand(frame, rv[1], fn)
            kind = rv[3]
            if kind.startswith('IntToInt'):
                if type(v) is Enum:
                    v = v.vi
                return cast_int(v, rv[4], rv[2])
            if kind.startswith('PointerCoercion') or kind in ('Subtype', 'Transmute', 'PtrToPtr'):
                return v
            raise Unsupported('cast kind ' + kind)
        if k == 'closure':
            return Closure(rv[1], [Cell(self.operand(frame, o, fn)) for o in rv[2]])
        if k == 'array':
            return VecV([Cell(self.operand(frame, o, fn)) for o in rv[1]])
        if k == 'len':
            return len(self.items_of(self.place_cell(frame, rv[1], fn).v, fn))
        if k == 'repeat':
            v = self.operand(frame, rv[1], fn)
            n = int(re.match(r'(\d+)', rv[2].replace('const ', '')).group(1))
            return VecV([Cell(clone_val(v)) for _ in range(n)])
        raise Unsupported('rvalue ' + k)

    def aggregate(self, frame, rv, fn):
        _, path, names, ops = rv
        vals = [Cell(self.operand(frame, o, fn)) for o in ops]
        prog = self.prog
        if names is not None:
            # struct or struct-like variant
            full, info = prog.struct_fields(path)
            if info is not None:
                return Struct(full, vals, names)
            m = re.fullmatch(r'(.+)::(\w+)', path)
            if m:
                efull, variants = prog.enum_info(m.group(1))
                if variants:
                    for i, (vn, kind, fl) in enumerate(variants):
                        if vn == m.group(2):
                            return Enum(efull, i, vn, vals)
            return Struct(path, vals, names)          # std struct (Range, ...) : keep printed path
        m = re.fullmatch(r'(.+)::(\w+)', path)
        if m:
            ep, vn = m.group(1), m.group(2)
            eh = ep.split('::')[-1]
            if eh == 'Option':
                return Enum('Option', 0 if vn == 'None' else 1, vn, vals)
            if eh == 'Result':
                return Enum('Result', 0 if vn == 'Ok' else 1, vn, vals)
            if eh == 'Ordering':
                return ordering({'Less': -1, 'Equal': 0, 'Greater': 1}[vn])
            if eh in ('Cow',):
                return Enum('Cow', 0 if vn == 'Borrowed' else 1, vn, vals)
            if eh == 'ControlFlow':
                return Enum('ControlFlow', 0 if vn == 'Continue' else 1, vn, vals)
            efull, variants = prog.enum_info(ep)
            if variants:
                for i, (v2, kind, fl) in enumerate(variants):
                    if v2 == vn:
                        return Enum(efull, i, vn, vals)
                raise Unsupported('variant %s of %s' % (vn, ep))
        if '::' not in path:
            hit = prog.bare_variant(path)
            if hit is not None:
                return Enum(hit[0], hit[1], path, vals)
            if path in ('Less', 'Equal', 'Greater'):
                return ordering({'Less': -1, 'Equal': 0, 'Greater': 1}[path])
            if path in ('None', 'Some'):
                return Enum('Option', 0 if path == 'None' else 1, path, vals)
            if path in ('Ok', 'Err'):
                return Enum('Result', 0 if path == 'Ok' else 1, path, vals)
        full, info = prog.struct_fields(path)
        if info is not None:
            return Struct(full, vals, None)
        ext = EXTERNAL_ENUMS.get(path.split('::')[-2] if '::' in path else None)
        if ext and path.split('::')[-1] in ext:
            vn = path.split('::')[-1]
            return Enum(path.rsplit('::', 1)[0].split('::')[-1], ext.index(vn), vn, vals)
        if not vals:
            return Opaque('unit:' + path)
        raise Unsupported('aggregate ' + path)

    # ---- calls
    def call(self, callee_text, args, dest_ty=None, fn=None):
        prog = self.prog
        c = parse_callee(callee_text)
        for pat, f in prog.overrides.items():
            if pat.search(callee_text):
                r = f(self, c, args, dest_ty)
                if r is not NotImplemented:
                    return r
        # closures and fn items invoked through Fn* traits
        if c.trait in ('FnOnce', 'FnMut', 'Fn') and c.method in ('call_once', 'call_mut', 'call'):
            return self.call_value(args[0], list(args[1].f) if type(args[1]) is Tup else [Cell(args[1])])
        e = prog.resolve_local(c, args)
        if e is not None:
            if e[3] and e[0] in DERIVED_NATIVE and (e[0], c.method) in prog.trait_natives:
                return prog.trait_natives[(e[0], c.method)](self, c, args, dest_ty)
            return self.run_fn(e[1], args)
        nat = None
        if c.trait:
            nat = prog.trait_natives.get((c.trait, c.method))
        if nat is None:
            nat = prog.natives.get((c.head, c.method))
        if nat is None and c.trait is None:
            nat = prog.natives.get(('*', c.method))
        if nat is None:
            raise Unsupported('callee ' + callee_text)
        self.ctx.natives_hit.add((c.trait or c.head or '') + '::' + c.method)
        return nat(self, c, args, dest_ty)

    def call_value(self, f, argcells):
        """call a closure / fn item value with a list of argument cells"""
        while type(f) is Ref:
            inner = f.cell.v
            if type(inner) in (Closure, FnItem) or callable(inner):
                if type(inner) is Closure:
                    break
                f = inner
            else:
                break
        if type(f) is Ref and type(f.cell.v) is Closure:
            clo = f.cell.v
            selfarg_ref = f
        elif type(f) is Closure:
            clo = f
            selfarg_ref = None
        elif type(f) is FnItem:
            return self.call(f.path, [c.v for c in argcells])
        elif callable(f):
            return f(self, [c.v for c in argcells])
        else:
            raise Unsupported('call of %r' % (f,))
        mf = self.prog.closures.get(clo.span)
        if mf is None:
            raise Unsupported('closure body ' + clo.span)
        self.prog.parsed(mf)
        t1 = mf.arg_types[0]
        if t1.startswith('&'):
            a0 = selfarg_ref if selfarg_ref is not None else Ref(Cell(clo))
        else:
            a0 = clo
        return self.run_fn(mf, [a0] + [c.v for c in argcells])

    def run_fn(self, fn, args):
        ctx = self.ctx
        if not fn.parsed:
            self.prog.parsed(fn)
        ctx.depth += 1
        if ctx.depth > ctx.max_depth:
            raise BoundExceeded('call depth %d in %s' % (ctx.depth, fn.name))
        frame = {}
        for i, a in enumerate(args):
            frame[i + 1] = Cell(a)
        frame[0] = Cell()
        blocks = fn.blocks
        bb = 0
        nst = 0
        try:
            while True:
                stmts, term = blocks[bb]
                for st in stmts:
                    if st[0] == 'assign':
                        v = self.rvalue(frame, st[2], fn)
                        place = st[1]
                        if not place[1]:
                            c = frame.get(place[0])
                            if c is None:
                                frame[place[0]] = Cell(v)
                            else:
                                c.v = v
                        else:
                            self.place_cell(frame, place, fn).v = v
                    else:   # setdisc
                        cell = self.place_cell(frame, st[1], fn)
                        self.set_discriminant(cell, st[2], fn, place=st[1])
                nst += len(stmts) + 1
                ctx.steps += len(stmts) + 1
                if ctx.steps > ctx.max_steps:
                    raise BoundExceeded('step budget in ' + fn.name)
                k = term[0]
                if k == 'goto':
                    bb = term[1]
                elif k == 'call':
                    a = [self.operand(frame, o, fn) for o in term[3]]
                    dty = mp.place_type(term[1], fn)
                    try:
                        r = self.call(term[2], a, dty, fn)
                    except Panic as pe:
                        if pe.where is None:
                            pe.where = fn.name
                        raise
                    if term[4] is None:
                        raise Unsupported('diverging call returned: ' + term[2])
                    place = term[1]
                    if not place[1]:
                        c = frame.get(place[0])
                        if c is None:
                            frame[place[0]] = Cell(r)
                        else:
                            c.v = r
                    else:
                        self.place_cell(frame, place, fn).v = r
                    bb = term[4]
                elif k == 'switch':
                    v = self.operand(frame, term[1], fn)
                    bb = self.switch(v, term[2], term[3], term[4])
                elif k == 'return':
                    return frame[0].v if frame[0].v is not None else UNIT
                elif k == 'drop':
                    bb = term[2]
                elif k == 'assert':
                    c = self.operand(frame, term[1], fn)
                    exp = term[2]
                    if isinstance(c, bool):
                        ok = (c == exp)
                    else:
                        ok = ctx.branch(c if exp else z3.Not(c))
                    if not ok:
                        raise Panic(term[3], fn.name)
                    bb = term[4]
                elif k == 'unreachable':
                    raise Unsupported('reached `unreachable` in ' + fn.name)
                else:
                    raise Unsupported('terminator ' + k)
        finally:
            ctx.depth -= 1
            ctx.fn_stmts[fn.name] = ctx.fn_stmts.get(fn.name, 0) + nst

    def switch(self, v, targets, otherwise, ty):
        if type(v) is Enum:
            v = v.vi
        if isinstance(v, bool):
            v = 1 if v else 0
        if isinstance(v, int):
            t = targets.get(v)
            if t is None:
                if ty and ty.strip() in INT_TYPES and v < 0:
                    w = INT_TYPES[ty.strip()][0]
                    t = targets.get(v + (1 << w))
                if t is None:
                    t = otherwise
            if t is None:
                raise Unsupported('switch without target')
            return t
        if z3.is_bool(v):
            # targets keyed 0 / otherwise
            alts, bbs = [], []
            if 0 in targets:
                alts.append(z3.Not(v)); bbs.append(targets[0])
                if 1 in targets:
                    alts.append(v); bbs.append(targets[1])
                elif otherwise is not None:
                    alts.append(v); bbs.append(otherwise)
            else:
                alts.append(v); bbs.append(targets.get(1, otherwise))
                alts.append(z3.Not(v)); bbs.append(otherwise)
            s = [z3.simplify(a) for a in alts]
            for a, b in zip(s, bbs):
                if z3.is_true(a):
                    return b
            return bbs[self.ctx.decide(s)]
        vs = z3.simplify(v)
        if z3.is_bv_value(vs):
            return self.switch(vs.as_long(), targets, otherwise, ty)
        w = vs.size()
        keys = sorted(targets)
        alts = [vs == z3.BitVecVal(k, w) for k in keys]
        bbs = [targets[k] for k in keys]
        if otherwise is not None:
            alts.append(z3.And(*[vs != z3.BitVecVal(k, w) for k in keys]))
            bbs.append(otherwise)
        return bbs[self.ctx.decide(alts)]

    def set_discriminant(self, cell, idx, fn, place=None):
        v = cell.v
        if type(v) is Enum:
            v.vi = idx
            return
        ty = mp.place_type(place, fn) if place else None
        if ty:
            full, variants = self.prog.enum_info(strip_generics(ty))
            if variants:
                cell.v = Enum(full, idx, variants[idx][0], [])
                return
            if ty_head(ty) == 'Option':
                cell.v = Enum('Option', idx, ['None', 'Some'][idx], [])
                return
        raise Unsupported('SetDiscriminant on %r (%s)' % (v, ty))

def ordering(c):
    return Enum('Ordering', c + 1, ['Less', 'Equal', 'Greater'][c + 1], [])

class LazyEnum:
    pass

EXTERNAL_ENUMS = {'Value': ['Null', 'Bool', 'Number', 'String', 'Array', 'Object']}
DERIVED_NATIVE = {'Clone', 'PartialEq', 'Eq', 'PartialOrd', 'Ord', 'Hash', 'Debug'}
