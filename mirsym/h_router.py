"""H11: the message loop's notification step.  Real Router::on_notification and Server::handle_did_change_text_document /
handle_did_save_text_document (and Database::update_document below them) are executed from MIR.  The interleaving of the loop
thread with the per-request worker threads enters through ONE variable: the number of live clones of the router's Arc<Server>
at the moment the notification is handled (each spawned worker holds one until it has responded and exited).  It is symbolic."""
import re
import z3
from harness import *
import h_lib, h_server
from h_server import lsp, url_of, BASE
from natives import URL
import natives

class RouterHarness(h_lib.LibHarness):
    name = 'notification_step'
    real_functions = ('Router::on_notification', 'Server::handle_did_change_text_document', 'Server::handle_did_save_text_document',
                      'BasePath::url_to_key', 'Database::update_document', 'Graph::update_key')
    required_covers = ('applied-when-no-worker-alive', 'worker-alive', 'did-save-with-text', 'did-save-without-text', 'new-file', 'other-notification')

    def __init__(self, prog, tier='quick'):
        h_lib.LibHarness.__init__(self, prog, tier)
        self.name = 'notification_step'
        self.required_covers = RouterHarness.required_covers
        self.bounds = {'live clones of Arc<Server>': 'symbolic, 1..4 / 1..8 (1 = only the loop thread); fairness: while the loop thread waits, workers finish one by one', 'notifications': 'didChange, didSave with / without text, unknown method, exit',
                       'notes': ['a', 'b'], 'target': 'existing note, new file'}
        self.de_pat = re.compile(r'as Deserialize<.*>>::deserialize')
        self.max_clones = 4 if tier == 'quick' else 8

    def run(self, ctx, ex):
        h, prog = self.h, self.prog
        self.cur_docs = {}
        prog.overrides = {self.stub_pat: self.stub_document, self.de_pat: lambda ex_, c, a, dt: OK(a[0].data) if type(a[0]) is Opaque and a[0].tag == 'JsonParams' else NotImplemented,
                          re.compile(r'(^|::)sleep$|(^|::)yield_now$'): self.time_passes, re.compile(r'Duration::from_millis$|Duration::from_secs$'): lambda ex_, c, a, dt: Opaque('Duration')}
        counter = [0]
        texts = {'a': self.new_token([('H',), ('P',)], h, counter), 'b': self.new_token([('P',)], h, counter)}
        db = self.fresh_db(ex, texts)
        cfg = ex.call('<Configuration as Default>::default', [], 'model::config::Configuration')
        server = prog.mk_struct('router::server::Server', base_path=prog.mk_struct('router::server::BasePath', base_path=BASE), database=db,
                                lsp_client=prog.mk_enum('router::LspClient', 'Unknown'), configuration=cfg)
        arc = ArcV(Cell(server))
        clones = ctx.sym_bv('live_clones_of_the_server', 64)
        ctx.assume(z3.And(z3.UGE(clones, 1), z3.ULE(clones, self.max_clones)))
        arc.strong = clones
        self.arc = arc
        self.waits = 0
        router = prog.mk_struct('router::Router', server=arc, sender=Opaque('Sender'))
        kind = ('didChange', 'didSave+text', 'didSave', 'other', 'exit')[ctx.choose(5)]
        key = ('a', 'c')[ctx.choose(2)]
        new_tok = self.new_token([('P',), ('P',)], h, counter)
        if kind == 'didChange':
            params = lsp(prog, 'DidChangeTextDocumentParams', text_document=lsp(prog, 'VersionedTextDocumentIdentifier', uri=URL(url_of(key)), version=2),
                         content_changes=h.vec([lsp(prog, 'TextDocumentContentChangeEvent', text=new_tok)]))
            method = 'textDocument/didChange'
        elif kind.startswith('didSave'):
            params = lsp(prog, 'DidSaveTextDocumentParams', text_document=lsp(prog, 'TextDocumentIdentifier', uri=URL(url_of(key))),
                         text=SOME(new_tok) if kind == 'didSave+text' else NONE())
            method = 'textDocument/didSave'
        else:
            params = Opaque('none')
            method = 'exit' if kind == 'exit' else '$/setTrace'
        note = Struct('lsp_server::Notification', [Cell(method), Cell(Opaque('JsonParams', params))], ['method', 'params'])
        ctx.input_desc = {'notification': kind, 'note': key}
        ctx.kind = (kind, key)
        applied_expected = kind in ('didChange', 'didSave+text')
        lost = False
        try:
            r = ex.call('Router::on_notification', [Ref(Cell(router)), note])
        except Panic as e:
            # Router::run catches the panic and drops the message: the notification is lost
            lost = True
            r = None
            ctx.panic_msg = e.msg
        cur = router.get('server')          # whatever Arc the router holds now is what later requests clone
        db_now = cur.cell.v.get('database') if isinstance(cur, ArcV) else db
        content = db_now.get('content').d.get(('model::Key', key))
        now = content[1].v if content else None
        info = {'input': ctx.input_desc, 'lost': lost, 'content_after': now}
        if applied_expected:
            ctx.law('C11.every-edit-notification-is-applied', (not lost) and now == new_tok, dict(info, live_clones='see model'))
            if not lost and self.waits == 0: ctx.cover('applied-when-no-worker-alive')
            if lost or self.waits > 0: ctx.cover('worker-alive')
            if key == 'c': ctx.cover('new-file')
            if kind == 'didSave+text': ctx.cover('did-save-with-text')
        else:
            ctx.law('C11.other-notifications-leave-the-notes-alone', now == (texts.get(key)), info)
            if kind == 'didSave': ctx.cover('did-save-without-text')
            if kind == 'other': ctx.cover('other-notification')
            if kind == 'exit':
                ctx.law('C11.exit-ends-the-loop', r is True, info)
        return info

    def time_passes(self, ex, c, a, dt):
        """environment: while the loop thread waits, one in-flight request worker finishes (every worker terminates)"""
        k = self.arc.strong
        if ex.ctx.branch(z3.UGT(k, 1) if not isinstance(k, int) else k > 1):
            self.arc.strong = z3.simplify(k - 1) if not isinstance(k, int) else k - 1
        self.waits += 1
        return UNIT

    def finish_violation(self, ctx, v):
        kind, key = getattr(ctx, 'kind', (None, None))
        m = v.get('model') or {}
        alive = m.get('live_clones_of_the_server', 1) > 1
        v['role'] = 'request-worker-alive-while-notification-is-handled' if (alive and v['info'].get('lost')) else 'general'
        v['input_tree'] = {'kind': kind, 'key': key, 'live_clones': m.get('live_clones_of_the_server', 1)}

    def replay(self, v, driver):
        d = v['input_tree']
        script = [{'op': 'router_notification', 'kind': d['kind'], 'key': d['key'], 'live_clones': min(int(d['live_clones']), 3)}]
        res = driver.run(script, timeout=60)
        v['replay_script'], v['replay_result'] = script, res
        last = res[-1]
        v['replay_verdict'] = 'native router: %s' % str(last)[:300]
        if isinstance(last, dict) and 'applied' in last:
            if v['law'] == 'C11.every-edit-notification-is-applied':
                return not last['applied']
            return bool(last.get('changed_unexpectedly'))
        return False
