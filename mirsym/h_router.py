"""H11: the message loop's notification step.  Real Router::on_notification and Server::handle_did_change_text_document /
handle_did_save_text_document (and Database::update_document below them) are executed from MIR.  The interleaving of the loop
thread with the per-request worker threads enters through ONE variable: the number of live clones of the router's Arc<Server>
at the moment the notification is handled (each spawned worker holds one until it has responded and exited).  It is symbolic."""
import re
import z3
from harness import *
import h_lib, h_server
from h_server import lsp, url_of, BASE
from natives import URL
import natives

class RouterHarness(h_lib.LibHarness):
    name = 'notification_step'
    real_functions = ('Router::handle_message', 'Router::on_notification', 'Server::handle_did_change_text_document', 'Server::handle_did_save_text_document',
                      'BasePath::url_to_key', 'Database::update_document', 'Graph::update_key')
    required_covers = ('applied-when-no-worker-alive', 'worker-alive', 'did-save-with-text', 'did-save-without-text', 'new-file', 'other-notification', 'second-edit')

    def __init__(self, prog, tier='quick'):
        h_lib.LibHarness.__init__(self, prog, tier)
        self.name = 'notification_step'
        self.required_covers = RouterHarness.required_covers
        self.bounds = {'session': '1 or 2 notifications, each preceded by 0..2 (quick) / 0..3 (thorough) requests still in flight', 'workers': 'for every worker and notification a symbolic flag: still running when that notification is handled; fairness: while the loop thread waits, running workers finish one by one; join returns when the joined worker has finished',
                       'versions': 'symbolic i32 per edit', 'notifications': 'didChange, didSave with / without text, unknown method, exit',
                       'notes': ['a', 'b'], 'target': 'existing note, new file'}
        self.de_pat = re.compile(r'as Deserialize<.*>>::deserialize')
        self.max_clones = 4 if tier == 'quick' else 8

    def run(self, ctx, ex):
        """a session of messages through the real Router::handle_message: requests spawn workers (thread::spawn is the
        environment: the worker holds the clone captured by its closure until it finishes), notifications are handled on the
        loop thread.  Symbolic: for every worker and every notification, whether the worker is still running when that
        notification is handled; the version numbers of the edits."""
        h, prog = self.h, self.prog
        self.cur_docs = {}
        prog.overrides = {self.stub_pat: self.stub_document, self.de_pat: lambda ex_, c, a, dt: OK(a[0].data) if type(a[0]) is Opaque and a[0].tag == 'JsonParams' else NotImplemented,
                          re.compile(r'(^|::)sleep$|(^|::)yield_now$|(^|::)park_timeout$'): self.time_passes, re.compile(r'Duration::from_(millis|secs|micros|nanos)$'): lambda ex_, c, a, dt: Opaque('Duration'),
                          re.compile(r'(^|::)spawn(::<.*>)?$'): self.spawn, re.compile(r'JoinHandle(::)?<.*>::join$'): self.join,
                          re.compile(r'JoinHandle(::)?<.*>::is_finished$'): lambda ex_, c, a, dt: z3.Not(natives.deref(a[0]).data['alive']) if is_sym(natives.deref(a[0]).data['alive']) else (not natives.deref(a[0]).data['alive'])}
        counter = [0]
        texts = {'a': self.new_token([('H',), ('P',)], h, counter), 'b': self.new_token([('P',)], h, counter)}
        db = self.fresh_db(ex, texts)
        cfg = ex.call('<Configuration as Default>::default', [], 'model::config::Configuration')
        server = prog.mk_struct_lenient('router::server::Server', base_path=prog.mk_struct('router::server::BasePath', base_path=BASE), database=db,
                                        lsp_client=prog.mk_enum('router::LspClient', 'Unknown'), configuration=cfg)
        arc = ArcV(Cell(server))
        arc.strong = 1
        self.arc, self.ctx = arc, ctx
        self.waits = 0
        self.workers = []
        router = prog.mk_struct_lenient('router::Router', server=arc, sender=Opaque('Sender'))
        rref = Ref(Cell(router))
        expected = dict(texts)          # what each note must hold once the server is idle
        script = []
        n_msgs = 2 if ctx.choose(2) else 1
        last = None
        for step in range(n_msgs):
            # requests still in flight when the notification arrives
            n_req = ctx.choose(3 if self.tier == 'quick' else 4)
            for _ in range(n_req):
                req = Struct('lsp_server::Request', [Cell(Opaque('RequestId')), Cell('textDocument/inlayHint'), Cell(Opaque('JsonParams', Opaque('none')))], ['id', 'method', 'params'])
                ex.call('Router::handle_message', [rref, prog.mk_enum('lsp_server::Message', 'Request', req)])
                script.append({'request': len(self.workers) - 1})
            # since they were started, any of them may have finished
            for w in self.workers:
                if w['alive'] is True:
                    w['alive'] = ctx.sym_bool('worker%d_still_running_at_notification%d' % (w['i'], step + 1))
            self.refresh()
            final = step == n_msgs - 1
            kind = ('didChange', 'didSave+text', 'didSave', 'other', 'exit')[ctx.choose(5)] if final else ('didChange', 'didSave+text')[ctx.choose(2)]
            key = ('a', 'c')[ctx.choose(2)] if final else 'a'
            new_tok = self.new_token([('P',), ('P',)], h, counter)
            version = ctx.sym_bv('version_of_edit%d' % (step + 1), 32)
            if kind == 'didChange':
                params = lsp(prog, 'DidChangeTextDocumentParams', text_document=lsp(prog, 'VersionedTextDocumentIdentifier', uri=URL(url_of(key)), version=version),
                             content_changes=h.vec([lsp(prog, 'TextDocumentContentChangeEvent', text=new_tok)]))
                method = 'textDocument/didChange'
            elif kind.startswith('didSave'):
                params = lsp(prog, 'DidSaveTextDocumentParams', text_document=lsp(prog, 'TextDocumentIdentifier', uri=URL(url_of(key))),
                             text=SOME(new_tok) if kind == 'didSave+text' else NONE())
                method = 'textDocument/didSave'
            else:
                params = Opaque('none')
                method = 'exit' if kind == 'exit' else '$/setTrace'
            note = Struct('lsp_server::Notification', [Cell(method), Cell(Opaque('JsonParams', params))], ['method', 'params'])
            script.append({'note': kind, 'key': key, 'step': step + 1})
            ctx.input_desc = {'messages': list(script)}
            ctx.kind = (kind, key)
            ctx.script = script
            applies = kind in ('didChange', 'didSave+text')
            if applies:
                expected[key] = new_tok
            waits0 = self.waits
            lost = False
            try:
                r = ex.call('Router::handle_message', [rref, prog.mk_enum('lsp_server::Message', 'Notification', note)])
            except Panic as e:
                # Router::run catches the panic and drops the message: the notification is lost
                lost = True
                r = None
                ctx.panic_msg = e.msg
            now = self.content_of(router, db, key)
            info = {'input': ctx.input_desc, 'lost': lost, 'content_after': now}
            ctx.lost = lost
            if applies:
                ctx.law('C11.every-edit-notification-is-applied', (not lost) and now == new_tok, dict(info, workers='see model'))
                if not lost and self.waits == waits0: ctx.cover('applied-when-no-worker-alive')
                if lost or self.waits > waits0: ctx.cover('worker-alive')
                if key == 'c': ctx.cover('new-file')
                if kind == 'didSave+text': ctx.cover('did-save-with-text')
                if step == 1: ctx.cover('second-edit')
            else:
                ctx.law('C11.other-notifications-leave-the-notes-alone', now == expected.get(key), info)
                if kind == 'didSave': ctx.cover('did-save-without-text')
                if kind == 'other': ctx.cover('other-notification')
                if kind == 'exit':
                    ctx.law('C11.exit-ends-the-loop', r is True, info)
            last = info
        # the server is idle: every worker has finished; a request issued now clones the router's current Arc
        state = {k: self.content_of(router, db, k) for k in expected}
        ctx.law('C11.idle-state-is-the-last-text-sent', state == expected, {'input': ctx.input_desc, 'state': state, 'expected': expected})
        if not ctx.violations and self.tv_pick(ctx.trace):
            # translator validation: the same session, with the model's choice of running workers and versions, through the real Router::run
            v = {'model': ctx.model(), 'info': {}}
            self.finish_violation(ctx, v)
            steps = self.native_steps(v['input_tree'])
            marks = {'a': 'T1', 'b': 'T3'}
            for st in steps:
                if st.get('note') in ('didChange', 'didSave+text'):
                    marks[st['key']] = st['text'].split()[0]
            ctx.tv = {'script': [{'op': 'router_session', 'steps': steps}], 'expect': None, 'post': ['session', {k: (marks.get(k) if state.get(k) is not None else None) for k in state}]}
        return last

    tv_every = 23
    tv_phase = 0

    def tv_compare(self, tv, native_out):
        exp = tv['post'][1]
        out = native_out[-1] if native_out else None
        if not (isinstance(out, dict) and 'texts' in out):
            tv['diff'] = out
            return False
        got = out['texts']
        for k, mark in exp.items():
            if mark is None:
                if got.get(k): tv['diff'] = {'note': k, 'executor': None, 'native': got.get(k)}; return False
            elif mark not in (got.get(k) or ''):
                tv['diff'] = {'note': k, 'executor': mark, 'native': got.get(k)}; return False
        return True

    def content_of(self, router, db, key):
        cur = router.get('server')          # whatever Arc the router holds now is what later requests clone
        db_now = cur.cell.v.get('database') if isinstance(cur, ArcV) else db
        content = db_now.get('content').d.get(('model::Key', key))
        return content[1].v if content else None

    def refresh(self):
        alive = [w['alive'] for w in self.workers]
        if all(isinstance(a, bool) for a in alive):
            self.arc.strong = 1 + sum(1 for a in alive if a)
        else:
            self.arc.strong = z3.simplify(z3.BitVecVal(1, 64) + z3.Sum([z3.If(a, z3.BitVecVal(1, 64), z3.BitVecVal(0, 64)) if is_sym(a) else z3.BitVecVal(1 if a else 0, 64) for a in alive]))

    def spawn(self, ex, c, a, dt):
        """environment: the new thread exists and holds whatever its closure captured (a clone of the router)"""
        w = {'i': len(self.workers), 'alive': True, 'closure': a[0]}
        self.workers.append(w)
        self.refresh()
        return Opaque('JoinHandle', w)

    def join(self, ex, c, a, dt):
        w = natives.deref(a[0]).data
        w['alive'] = False          # join returns when that worker has finished
        self.refresh()
        return OK(False)

    def time_passes(self, ex, c, a, dt):
        """environment: while the loop thread waits, one in-flight request worker finishes (every worker terminates)"""
        for w in self.workers:
            al = w['alive']
            if al is False: continue
            if al is True or ex.ctx.branch(al):
                w['alive'] = False
                break
        self.refresh()
        self.waits += 1
        return UNIT

    def finish_violation(self, ctx, v):
        kind, key = getattr(ctx, 'kind', (None, None))
        m = v.get('model') or {}
        script = []
        any_alive = False
        for st in getattr(ctx, 'script', []):
            st = dict(st)
            script.append(st)
        # per notification: which workers the model keeps running when it is handled
        running = {}
        for name, val in m.items():
            mm = re.match(r'worker(\d+)_still_running_at_notification(\d+)$', name)
            if mm and val:
                running.setdefault(int(mm.group(2)), []).append(int(mm.group(1)))
                any_alive = True
        v['role'] = 'request-worker-alive-while-notification-is-handled' if (any_alive and v['info'].get('lost')) else 'general'
        v['input_tree'] = {'messages': script, 'running': {str(k): sorted(x) for k, x in running.items()},
                           'versions': {k: val for k, val in m.items() if k.startswith('version_of_edit')}}

    def replay(self, v, driver):
        d = v['input_tree']
        steps = self.native_steps(d)
        script = [{'op': 'router_session', 'steps': steps}]
        res = driver.run(script, timeout=90)
        v['replay_script'], v['replay_result'] = script, res
        last = res[-1]
        v['replay_verdict'] = 'native router: %s' % str(last)[:300]
        if not (isinstance(last, dict) and 'texts' in last):
            return False
        exp = {'a': 'T1', 'b': 'T3'}
        for st in steps:
            if st.get('note') in ('didChange', 'didSave+text'):
                exp[st['key']] = st['text'].split()[0]
        got = last['texts']
        return any((exp.get(k) or '') not in (got.get(k) or '') for k in exp)

    def native_steps(self, d):
        steps = []
        msgs = d['messages']
        # a worker that the model lets finish before the next notification is a request whose worker ends at once;
        # one that is still running is a request whose response the client has not read yet
        next_note = {}
        n = 0
        for m in msgs:
            if 'note' in m: n = m['step']
        for i, m in enumerate(msgs):
            if 'request' in m:
                nxt = next(x['step'] for x in msgs[i:] if 'note' in x)
                alive = m['request'] in d['running'].get(str(nxt), [])
                steps.append({'request': 'alive' if alive else 'done'})
            else:
                ver = d['versions'].get('version_of_edit%d' % m['step'], 1)
                if ver >= 2 ** 31: ver -= 2 ** 32
                steps.append({'note': m['note'], 'key': m['key'], 'text': 'EDIT%d one\n\nEDIT%d two\n' % (m['step'], m['step']), 'version': ver})
        return steps
