"""Property -> harnesses registry."""
import h_doc, h_c13, h_lib, h_squash, h_pos, h_paths, h_titles, h_actions, h_events, h_server, h_router, h_render, h_urlkind, h_search

def doc(prog, tier):
    return h_doc.DocHarness(prog, tier)

DOC_SPEC = {'make': doc, 'time_limit': {'quick': 420, 'thorough': 900}}

def doc_lists(prog, tier):
    if tier == 'quick':
        return h_doc.DocHarness(prog, tier, budget=6, max_nest=3, kinds=('Para', 'Bullet', 'Ordered'),
                                name='doc_pipeline_lists', covers=('list', 'merged-item'))
    return h_doc.DocHarness(prog, tier, budget=7, max_nest=3, kinds=('Para', 'Header', 'Bullet', 'Ordered'),
                            name='doc_pipeline_lists', covers=('heading', 'list', 'merged-item', 'nested-heading'))
def doc_lists_h(prog, tier):
    return h_doc.DocHarness(prog, tier, budget=5, max_nest=3, kinds=('Para', 'Header', 'Bullet', 'Ordered'),
                            name='doc_pipeline_lists_headings', covers=('heading', 'list', 'merged-item', 'nested-heading'))
def doc_headings(prog, tier):
    return h_doc.DocHarness(prog, tier, budget=6 if tier == 'quick' else 8, max_nest=0, kinds=('Para', 'Header'),
                            name='doc_pipeline_headings', covers=('heading', 'nested-heading', 'wellnested-input', 'non-wellnested-input'))
LISTS_SPEC = {'make': doc_lists, 'time_limit': {'quick': 420, 'thorough': 900}}
LISTS_H_SPEC = {'make': doc_lists_h, 'time_limit': {'quick': 420, 'thorough': 600}}
HEADINGS_SPEC = {'make': doc_headings, 'time_limit': {'quick': 300, 'thorough': 600}}
DOC_ALL = [DOC_SPEC, LISTS_SPEC, LISTS_H_SPEC, HEADINGS_SPEC]
def _twice(spec):
    """the same harness with the second format switched on (C02); the other properties skip that part"""
    def make(prog, tier, f=spec['make']):
        hz = f(prog, tier)
        hz.second_pass = True
        hz.wiki_refs = True
        hz.required_covers = tuple(hz.required_covers) + ('text-formatted-twice',)
        return hz
    return dict(spec, make=make)
DOC_ALL_TWICE = [_twice(s_) for s_ in DOC_ALL]

COMMON = [
    'Deciding step: z3 over path conditions of the real MIR (rustc -Zunpretty=mir of /repo working tree, overflow-checks on); '
    'every function of liwe/iwes is executed from its MIR, functions of other crates by native models listed in coverage.trusted_base',
    'HashMap/HashSet iteration order = insertion order, rayon adaptors sequential (scheduler / hash-seed nondeterminism is C16, not claimed)',
    'derived Clone/PartialEq/Ord/Debug impls are executed natively as structural copy / comparison',
    'text -> blocks (pulldown-cmark) and blocks -> text (GraphBlock::to_markdown, cmark writer) are outside the claim: inputs are Document blocks '
    'with the shapes the reader can emit (witnessed natively), outputs are the projected GraphBlocks / arena / Tree',
]

KERNEL_SPEC = {'make': lambda prog, tier: h_c13.KernelHarness(prog, tier), 'time_limit': {'quick': 300, 'thorough': 900}}
LINESTARTS_SPEC = {'make': lambda prog, tier: h_c13.LineStartsHarness(prog, tier), 'time_limit': {'quick': 120, 'thorough': 600}}

def lib(prog, tier):
    return h_lib.LibHarness(prog, tier)
LIB_SPEC = {'make': lib, 'time_limit': {'quick': 420, 'thorough': 1500}}
LIB_META_SPEC = {'make': lambda prog, tier: h_lib.LibHarness(prog, tier, mode='meta', name='library_front_matter'), 'time_limit': {'quick': 120, 'thorough': 120}}

def squash_graphs(prog, tier):
    return h_squash.SquashHarness(prog, tier, 'graphs')
def squash_chains(prog, tier):
    return h_squash.SquashHarness(prog, tier, 'chains', name='squash_chains_depth_u8')
SQUASH_SPECS = [{'make': squash_graphs, 'time_limit': {'quick': 420, 'thorough': 1500}}, {'make': squash_chains, 'time_limit': {'quick': 300, 'thorough': 900}}]

def pos(prog, tier):
    return h_pos.PosHarness(prog, tier, 'inline')
def pos_blocks(prog, tier):
    return h_pos.PosHarness(prog, tier, 'blocks')
POS_SPEC = {'make': pos, 'time_limit': {'quick': 300, 'thorough': 900}}
POSB_SPEC = {'make': pos_blocks, 'time_limit': {'quick': 300, 'thorough': 900}}

PATHS_SPEC = {'make': lambda prog, tier: h_paths.PathsHarness(prog, tier), 'time_limit': {'quick': 420, 'thorough': 1500}}

SEARCH_SPEC = {'make': lambda prog, tier: h_search.SearchHarness(prog, tier), 'time_limit': {'quick': 240, 'thorough': 900}}
TITLES_SPEC = {'make': lambda prog, tier: h_titles.TitlesHarness(prog, tier), 'time_limit': {'quick': 300, 'thorough': 600}}

WRITER_NOTE = ('writer: the real blocks_to_markdown_sparce / GraphBlock::to_markdown / is_sparce_list / left_pad_and_prefix(_num) executed from MIR on block trees '
               'of the Projector\'s range; its text is read back by a reference reader (CommonMark block structure, mirsym/mdref.py) and must be the tree that was written; '
               'item numbers of top-level and quoted ordered lists are symbolic (digit count split by the solver); the reference reader is validated against the real '
               'reader on sampled / all paths and every violation is replayed through the real writer and the real reader; inline mark-up and escaping are outside')
URLKIND_SPEC = {'make': lambda prog, tier: h_urlkind.UrlKindHarness(prog, tier), 'time_limit': {'quick': 120, 'thorough': 600}}
RENDER_SPEC = {'make': lambda prog, tier: h_render.RenderHarness(prog, tier), 'time_limit': {'quick': 300, 'thorough': 1200}, 'tv_max': 600}
SERVER_SPEC = {'make': lambda prog, tier: h_server.ServerHarness(prog, tier), 'time_limit': {'quick': 420, 'thorough': 1200}, 'crates': ('liwe', 'iwes')}
ROUTER_SPEC = {'make': lambda prog, tier: h_router.RouterHarness(prog, tier), 'time_limit': {'quick': 300, 'thorough': 600}, 'crates': ('liwe', 'iwes')}
EVENTS_SPEC = {'make': lambda prog, tier: h_events.EventsHarness(prog, tier), 'time_limit': {'quick': 300, 'thorough': 600}}
ACTIONS_SPEC = {'make': lambda prog, tier: h_actions.ActionsHarness(prog, tier), 'time_limit': {'quick': 420, 'thorough': 1500}, 'crates': ('liwe', 'iwes')}
ACTIONS_LISTS_SPEC = {'make': lambda prog, tier: h_actions.ActionsHarness(prog, tier, 'lists'), 'time_limit': {'quick': 420, 'thorough': 1200}, 'crates': ('liwe', 'iwes')}
ACT_NOTES = COMMON + [
    'ActionContext is a harness stub over the real Graph (same delegation as impl ActionContext for &Server); NodeIter::to_markdown is stubbed to return the '
    'GraphBlocks produced by the real Projector, so the laws read structure; the emitted text, Urls and the re-parse between two actions are outside',
    'native replay goes through the real providers and the real text layer (markdown re-parsed and projected)']

KANI_C13 = {'kani': ['k13_'], 'cap_s': {'quick': 400, 'thorough': 1200}}
KANI_C07 = {'kani': ['k07_'], 'cap_s': {'quick': 400, 'thorough': 1200}}
KANI_C06 = {'kani': ['k06_'], 'cap_s': {'quick': 400, 'thorough': 1200}}

PROPS = {
    'C08': {'specs': [SERVER_SPEC], 'notes': COMMON + [
        'claimed at tree level through the real handle_rename: the workspace edit is read as (deleted uris, created uris, per-uri GraphBlocks) with NodeIter::to_markdown '
        'stubbed to the real Projector output and Url modelled natively (parse / join / to_string on ASCII names); notes in the library root plus one sub-directory note',
        'the emitted text, percent-encoding of unusual file names (C14) and sub-directory rename sites are outside']},
    'C09': {'specs': [ACTIONS_SPEC], 'notes': ACT_NOTES},
    'C10': {'specs': [ACTIONS_SPEC, ACTIONS_LISTS_SPEC, RENDER_SPEC], 'notes': ACT_NOTES + [WRITER_NOTE]},
    'C11': {'specs': [ROUTER_SPEC], 'notes': COMMON + [
        'the schedule enters through one symbolic variable: how many clones of the router\'s Arc<Server> are alive (one per in-flight request worker) when the loop thread '
        'handles the notification; fairness assumption: every worker terminates (while the loop thread sleeps, workers finish one by one); claimed for the loop-thread step '
        'Router::on_notification -> Server::handle_did_* -> Database::update_document; memory ordering, the channel and thread spawning are outside']},
    'C12': {'specs': [SERVER_SPEC, ACTIONS_SPEC, ACTIONS_LISTS_SPEC, dict(LIB_SPEC, crates=('liwe', 'iwes'))], 'notes': ACT_NOTES + ['claimed at the handler -> liwe boundary for code actions: action() for every provider x every node of a note never panics, and every offered action resolves (changes() is Some and does not panic); serde, Urls, the router and the other request kinds are outside']},
    'C06': {'specs': [TITLES_SPEC, LIB_SPEC, URLKIND_SPEC, KANI_C06], 'notes': COMMON + [
        'decision kernel only: link kind x position x url form x (linking directory, target directory) x target has heading; output read from the projected GraphBlocks; '
        'the final "[text](url)" string and the refs_extension concatenation are outside',
        'relative-path join / relative / parent are native models validated against the real crate by the translator validation']},
    'C18': {'specs': [PATHS_SPEC, SEARCH_SPEC, LIB_SPEC], 'notes': COMMON + [
        'claimed for the path enumeration, the rank ordering of Graph::search_paths and the empty-query result of Database::global_search (order and 100-entry cut, list sizes on both sides of the cut-off, SkimMatcherV2 stubbed: its score is not read for an empty query); non-empty queries (fuzzy scores) and symbol Urls are outside',
        'oracle: independent forward enumeration over the input documents (root notes = notes nobody includes; steps heading -> sub-heading, heading -> top-level heading of a note included by a direct block reference; no note twice on a path)']},
    'C17': {'specs': SQUASH_SPECS, 'notes': COMMON + [
        'depth is a symbolic u8: 0..3 (quick) / 0..6 (thorough) on arbitrary reference graphs, all 256 values on chains and self-loops',
        'oracle: independent recursive expansion over the collected trees of the notes (sibling order not constrained: the statement does not fix it)',
        'termination = the call-depth bound of the executor is never hit; the CLI rebuild (build_key_from_iter over the squashed tree) must give the same tree']},
    'C04': {'specs': [LIB_SPEC, LIB_META_SPEC], 'notes': COMMON + [
        'the Markdown text parser is the stubbed environment: MarkdownReader::document returns the Document chosen for a content token, so '
        '"fresh import of the final texts" is well defined; everything else (import, update_key, delete_branch, index, paths, lookups) is real MIR',
        'observations compared after every step, node ids renamed to (note, pre-order ordinal): block / inline backlinks of every key incl. a missing one, '
        'titles, collected trees, outline paths, block at a line (symbolic line)']},
    'C05': {'specs': [LIB_SPEC, TITLES_SPEC, SERVER_SPEC, URLKIND_SPEC], 'notes': COMMON + [
        'oracle: independent scan of the input Documents with the statement\'s resolution rule (relative to the linking note\'s directory, .md ignored, '
        'external URLs excluded); notes in the library root only (sub-directory resolution is string/path code, see not-claimed C15)']},
    'C13': {'specs': [KERNEL_SPEC, LINESTARTS_SPEC, POS_SPEC, POSB_SPEC, SERVER_SPEC, dict(LIB_SPEC, crates=('liwe', 'iwes')), KANI_C13], 'notes': COMMON + [
        'claimed for the conversion kernels: to_line_range / to_inline_range over every sorted line table (symbolic 64-bit entries) and byte range; '
        'line_starts over strings given by their line structure (symbolic line lengths, LF / CRLF / missing final newline), std str::lines / '
        'split_inclusive / split / len modelled on that structure',
        'which byte ranges pulldown-cmark reports for a block (e.g. a last line without newline) and UTF-16 vs byte columns are outside the claim']},
    'C02': {'specs': DOC_ALL_TWICE + [RENDER_SPEC], 'notes': COMMON + [WRITER_NOTE,
        'text fixpoint: on every path of the document harnesses the projected blocks are written by the real writer, read back by the reference reader, built and projected '
        'again by the real code and written again; the two texts must be equal (heading depths symbolic: a run of # of symbolic length is carried as a mark and compared by the solver); '
        'a table stands as one non-paragraph leaf (its own text comes from the cmark writer, outside); inline mark-up beyond emphasis / plain links, escaping of '
        'special characters in words, front matter and refs_extension are outside; the executor verdict agreed with the real format-twice on all 51,743 quick paths (one-off exhaustive validation), sampled on every run']},
    'C01': {'specs': DOC_ALL + [LIB_META_SPEC, EVENTS_SPEC, TITLES_SPEC, RENDER_SPEC], 'notes': COMMON + [WRITER_NOTE, 'claimed at block level: every block/token of the input appears once, in order, in the same container, same kind']},
    'C03': {'specs': DOC_ALL + [POSB_SPEC, EVENTS_SPEC, RENDER_SPEC, LIB_SPEC], 'notes': COMMON + ['claimed for blocks -> graph -> tree -> projection: every compiler-emitted panic edge / unwrap / expect / explicit panic reachable within the bounds is a violation']},
    'C07': {'specs': DOC_ALL + [RENDER_SPEC, KANI_C07], 'notes': COMMON + [WRITER_NOTE, 'heading levels are symbolic u8 in 1..6; laws: order kept, emitted outline well nested, well-nested input keeps its levels, blocks stay under the nearest preceding heading']},
    'C20': {'specs': DOC_ALL + [LIB_SPEC], 'notes': COMMON + ['representation invariant checked on every arena produced within the bounds (establish step) and after every update_key step of the library harness (preserve step: RI, ids never reused, other notes untouched)']},
}
