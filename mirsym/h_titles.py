"""H6: formatting refreshes link titles and never retargets (GraphInline::normalize, Line::normalize, GraphNodePointer::node
Reference arm, Projector Reference arm, Key::from_rel_link_url / to_rel_link_url / parent, Graph::extract_ref_text)."""
import z3
from harness import *
import h_lib
from h_lib import resolve, is_external, norm_path
from h_doc import std_json

NOTES = {'a': 'TA', 'b': 'TB', 'd/b': 'TDB', 'd/x': 'TDX', 'd/e/c': 'TDEC', 'd/e/b': 'TDEB'}

class TitlesHarness(h_lib.LibHarness):
    name = 'link_titles'
    real_functions = ('GraphInline::normalize', 'Line::normalize', 'GraphNodePointer::node', 'Projector::project_node (Reference arm)',
                      'Key::to_rel_link_url/from_rel_link_url/from_file_name/parent', 'Graph::extract_ref_text/get_key_title', 'is_ref_url',
                      'LinkType::to_ref_type', 'ReferenceType::to_link_type', 'DocumentInline::to_graph_inline', 'SectionsBuilder::block (reference arm)')
    tv_every = 7
    tv_phase = 0
    required_covers = ('title-refreshed', 'title-kept-no-heading', 'title-kept-missing', 'wiki-kept', 'external-kept', 'sub-directory', 'nested-inline')

    def __init__(self, prog, tier='quick'):
        h_lib.LibHarness.__init__(self, prog, tier)
        self.name = 'link_titles'
        self.required_covers = TitlesHarness.required_covers
        self.bounds = {'notes': sorted(NOTES), 'linking note': ['a', 'd/x', 'd/e/c'], 'link kinds': 'block / inline / inline in emphasis x Regular / WikiLink / WikiLinkPiped',
                       'urls': 'same dir, .md suffix, sub dir, parent dir (..), missing, external (any case)'}

    def run(self, ctx, ex):
        h = self.h
        self.cur_docs = {}
        self.prog.overrides = {self.stub_pat: self.stub_document}
        counter = [100]
        src = ['a', 'd/x', 'd/e/c'][ctx.choose(3)]
        urls = ['b', 'b.md', 'b#sec', 'zz', 'e/c', '../b', 'a', 'https://e.x/p', 'HTTPS://E.X/P', 'mailto:m@e.x', 'MAILTO:m@e.x', 'Http://e.x']
        url = urls[ctx.choose(len(urls))]
        place = ('block', 'inline', 'emph')[ctx.choose(3)]
        lt = ('Regular', 'WikiLink', 'WikiLinkPiped')[ctx.choose(3)]
        headed = {n: (ctx.choose(2) == 0) if n in ('b', 'd/b') else True for n in NOTES}
        link = h.ilink(url, 'ORIG', link_type=lt)
        if place == 'block':
            blocks = [h.header(1, [h.istr(NOTES[src])], h.rng(0, 1)), h.para([link], h.rng(2, 3))]
        elif place == 'inline':
            blocks = [h.header(1, [h.istr(NOTES[src])], h.rng(0, 1)), h.para([h.istr('see '), link], h.rng(2, 3))]
        else:
            blocks = [h.header(1, [h.istr(NOTES[src])], h.rng(0, 1)), h.para([h.istr('see '), h.iemph([link])], h.rng(2, 3))]
        texts = {}
        for n, title in NOTES.items():
            if n == src:
                doc = h.document(blocks)
            elif headed[n]:
                doc = h.document([h.header(1, [h.istr(title)], h.rng(0, 1)), h.para([h.istr('p')], h.rng(2, 3))])
            else:
                doc = h.document([h.para([h.istr('p')], h.rng(0, 1))])
            tok = 'DOC%d' % len(self.cur_docs)
            self.cur_docs[tok] = ([], doc, None)
            texts[n] = tok
        ctx.input_desc = {'linking_note': src, 'url': url, 'place': place, 'link_type': lt, 'headed': {k: v for k, v in headed.items() if k in ('b', 'd/b')}}
        g = self.fresh(ex, texts)
        gref = Ref(Cell(g))
        key = h.key(src)
        tree = ex.call('<&Graph as GraphContext>::collect', [Ref(Cell(gref)), Ref(Cell(key))])
        it = ex.call('Tree::iter', [Ref(Cell(tree))])
        parent = src.rsplit('/', 1)[0] if '/' in src else ''
        blocks_out = std_json(pyval(ex.call("Projector::project::<TreeIter<'_>>", [it, Ref(Cell(parent))])))
        out = find_link(blocks_out)
        info = {'input': ctx.input_desc, 'output_link': out}
        # ---- C05: a block reference is indexed under the key it resolves to from the linking note's directory
        if place == 'block' and not is_external(url):
            tgt = resolve(url, src)
            br = ex.call('Graph::get_block_references_to', [gref, Ref(Cell(h.key(tgt)))])
            owners = set()
            for c in br.items:
                owners.add(pyval(ex.call('<&Graph as GraphContext>::key_of', [Ref(Cell(gref)), c.v]))['relative_path'])
            ctx.law('C05.block-reference-indexed-under-resolved-key', src in owners, dict(info, resolved=tgt, owners=sorted(owners)))
        self.judge(ctx.input_desc, out, ctx.law, info, ctx)
        if self.tv_pick(ctx.trace):
            script = self.native_script(ctx.input_desc)
            ctx.tv = {'script': script, 'expect': None, 'post': list(out) if out else None}
        return info

    def native_script(self, d):
        src = d['linking_note']
        md_link = {'Regular': '[ORIG](%s)' % d['url'], 'WikiLink': '[[%s]]' % d['url'], 'WikiLinkPiped': '[[%s|ORIG]]' % d['url']}[d['link_type']]
        body = {'block': md_link, 'inline': 'see ' + md_link, 'emph': 'see *' + md_link + '*'}[d['place']]
        state = {}
        for n, title in NOTES.items():
            if n == src:
                state[n + '.md'] = '# %s\n\n%s\n' % (title, body)
            elif d['headed'].get(n, True):
                state[n + '.md'] = '# %s\n\np\n' % title
            else:
                state[n + '.md'] = 'p\n'
        return [{'op': 'import', 'state': state}, {'op': 'project', 'key': src}, {'op': 'to_markdown', 'key': src}]

    def tv_compare(self, tv, native_out):
        if any(isinstance(x, dict) and 'panic' in x for x in native_out):
            return False
        out = find_link(native_out[1])
        exp = tv['post']
        if out is None or exp is None:
            return out is None and exp is None
        out = list(out)
        # a bare wiki link's text is its url in the parsed document; autolinks (<HTTP://..>) have the url as text
        if out[:3] == exp[:3] and (out[3] == exp[3] or exp[2] == 'WikiLink'):
            return True
        tv['diff'] = {'executor': exp, 'native': out}
        return False

    def judge(self, d, out, law, info, ctx=None):
        src, url, place, lt, headed = d['linking_note'], d['url'], d['place'], d['link_type'], d['headed']
        if not law('C06.link-survives-formatting', out is not None, info):
            return
        o_url, o_title, o_lt, o_text = out
        ext = is_external(url)
        law('C06.link-kind-unchanged', o_lt == lt, info)
        law('C01.link-kind-kept', o_lt == lt, info)
        if ext:
            law('C06.external-url-untouched', o_url == url, info)
            law('C01.link-destination-kept', o_url == url, info)
            law('C06.external-link-text-kept', o_text == 'ORIG', info)
            if ctx: ctx.cover('external-kept')
            return
        tgt = resolve(url, src)
        law('C06.destination-unchanged', resolve(o_url, src) == tgt, dict(info, resolves_to=resolve(o_url, src), expected=tgt))
        law('C01.link-destination-kept', resolve(o_url, src) == tgt, dict(info, resolves_to=resolve(o_url, src), expected=tgt))
        exists = tgt in NOTES
        has_title = exists and (headed.get(tgt, True))
        if lt == 'Regular' and has_title:
            law('C06.title-refreshed-from-resolved-note', o_text == NOTES[tgt], dict(info, expected=NOTES[tgt], resolved=tgt))
            if ctx: ctx.cover('title-refreshed')
        elif lt == 'Regular':
            law('C06.text-kept-when-target-has-no-title', o_text == 'ORIG', dict(info, resolved=tgt))
            if ctx: ctx.cover('title-kept-missing' if not exists else 'title-kept-no-heading')
        elif lt == 'WikiLinkPiped':
            law('C06.piped-wiki-link-text-kept', o_text == 'ORIG', info)
            if ctx: ctx.cover('wiki-kept')
        else:
            law('C06.bare-wiki-link-has-no-separate-text', o_text in ('', 'ORIG'), info)
            if ctx: ctx.cover('wiki-kept')
        if ctx and '/' in src: ctx.cover('sub-directory')
        if ctx and place == 'emph': ctx.cover('nested-inline')

    def finish_violation(self, ctx, v):
        d = ctx.input_desc
        v['input_tree'] = d
        role = 'general'
        if not is_external(d['url']):
            if '..' in d['url']:
                role = 'dotdot-url-not-normalised'
            elif d['place'] != 'block' and '/' in d['linking_note']:
                role = 'inline-link-in-sub-directory-resolved-from-library-root'
        v['role'] = role

    def replay(self, v, driver):
        d = v['input_tree']
        src = d['linking_note']
        script = self.native_script(d)
        res = driver.run(script)
        v['replay_script'], v['replay_result'] = script, res
        if any(isinstance(x, dict) and 'panic' in x for x in res):
            v['replay_verdict'] = 'native panic'
            return True
        out = find_link(res[1])
        if d['link_type'] == 'WikiLink' and out and out[3] == d['url']:
            out = (out[0], out[1], out[2], 'ORIG')
        failed = []
        def law(name, ok, info=None):
            if ok is not True:
                failed.append(name)
            return ok is True
        self.judge(d, out, law, {}, None)
        v['replay_verdict'] = 'native link %s; laws violated: %s; text: %r' % (out, failed, res[2])
        if v['law'] == 'C05.block-reference-indexed-under-resolved-key':
            tgt = resolve(d['url'], d['linking_note'])
            r2 = driver.run(script[:1] + [{'op': 'block_refs_to', 'key': tgt}])
            v['replay_verdict'] = 'native block references to %s: %s' % (tgt, r2[-1])
            return r2[-1] == []
        return v['law'] in failed

def find_link(blocks):
    def in_inl(inl):
        for i in inl:
            if i['_v'] == 'Link':
                f = i['_f']
                return (f[0], f[1], f[2]['_v'], h_text(f[3]))
            if isinstance(i.get('_0'), list):
                r = in_inl(i['_0'])
                if r: return r
        return None
    for b in blocks:
        if b['_v'] in ('Para', 'Plain'):
            r = in_inl(b['_0'])
            if r: return r
    return None

def h_text(inl):
    from h_doc import inl_text
    return inl_text(inl)
