"""H9 / H10 / H12: code actions.  Real ActionProvider::{action, changes} of the seven providers (iwes crate) and the Tree
surgery they call (liwe crate) are executed from MIR.  ActionContext is a harness stub over the real Graph (same delegation as
`impl ActionContext for &Server`); NodeIter::to_markdown is stubbed to return the projected GraphBlocks (real Projector), so the
oracle sees structure instead of text."""
import re
import z3
from harness import *
import h_doc
from h_doc import std_json, out_seq, tokens_of, describe, concretize_tree

PROVIDERS = ['SectionExtract', 'SubSectionsExtract', 'ReferenceInlineSection', 'ReferenceInlineQuote', 'SectionToList', 'ListToSections', 'ListChangeType']

class NoteGen(h_doc.Gen):
    def __init__(self, hz, ctx, budget, max_nest, ref_urls, kinds=('Para', 'Header', 'Ref', 'Bullet', 'Ordered', 'Quote')):
        h_doc.Gen.__init__(self, hz, ctx, budget, max_nest, kinds=kinds)
        self.ref_urls = ref_urls
        self.prev_lv = None

    def block(self, nest):
        ctx, h = self.ctx, self.h
        kinds = [k for k in self.kinds if nest < self.max_nest or k not in ('Quote', 'Bullet', 'Ordered')]
        if getattr(self, 'first_in_item', False):
            kinds = ['Para']
        k = kinds[ctx.choose(len(kinds))]
        self.budget -= 1
        t = 'A%d' % self.tok; self.tok += 1
        if k == 'Para':
            return {'k': 'Para', 't': t}, h.para([h.istr(t)], self.lr())
        if k == 'Header':
            # concrete well-nested levels (1..3) at top level; level 1 inside containers
            if nest > 0:
                lv = 1
            elif self.prev_lv is None:
                lv = 1
            else:
                lv = 1 + ctx.choose(min(self.prev_lv + 1, 3))
            if nest == 0:
                self.prev_lv = lv
            return {'k': 'Header', 't': t, 'lv': lv}, h.header(lv, [h.istr(t)], self.lr())
        if k == 'Ref':
            url = self.ref_urls[ctx.choose(len(self.ref_urls))]
            return {'k': 'Ref', 't': t, 'url': url}, h.para([h.ilink(url, t)], self.lr())
        if k == 'Quote':
            lr = self.lr(0)
            cn, cv = self.seq(nest + 1, min_len=1)
            return {'k': 'Quote', 'c': cn}, h.quote(cv, lr)
        items_n, items_v = [], []
        for i in range(1 + ctx.choose(2)):
            if self.budget <= 0 and i > 0:
                break
            self.first_in_item = True
            n0, v0 = self.block(nest + 1)
            self.first_in_item = False
            cn, cv = self.seq(nest + 1)
            items_n.append([n0] + cn); items_v.append([v0] + cv)
        return ({'k': k, 'items': items_n}, h.bullets(items_v) if k == 'Bullet' else h.ordered(items_v))

def blocks_to_neutral(blocks):
    """projected GraphBlocks (neutral JSON) -> input tree of the doc pipeline: what re-reading the formatted note yields
    (the text layer in between is assumed shape-preserving; stated in the evidence)"""
    out = []
    def text(inl):
        return h_doc.inl_text(inl)
    def links(inl):
        return [i for i in inl if i.get('_v') == 'Link']
    for b in blocks:
        v = b['_v']
        if v in ('Para', 'Plain'):
            inl = b['_0']
            if len(inl) == 1 and inl[0].get('_v') == 'Link':
                f = inl[0]['_f']
                out.append({'k': 'Ref', 't': text(f[3]), 'url': f[0]})
            else:
                out.append({'k': 'Para', 't': text(inl)})
        elif v == 'Header':
            out.append({'k': 'Header', 't': text(b['_f'][1]), 'lv': b['_f'][0]})
        elif v == 'CodeBlock':
            out.append({'k': 'Code', 't': b['_f'][1], 'lang': b['_f'][0]})
        elif v == 'HorizontalRule':
            out.append({'k': 'Rule'})
        elif v == 'BlockQuote':
            out.append({'k': 'Quote', 'c': blocks_to_neutral(b['_0'])})
        elif v in ('BulletList', 'OrderedList'):
            out.append({'k': 'Bullet' if v == 'BulletList' else 'Ordered', 'items': [blocks_to_neutral(it) for it in b['_0']]})
        else:
            raise Unsupported('blocks_to_neutral: ' + v)
    return out

def neutral_to_vals(h, blocks, line=None):
    line = line if line is not None else [0]
    def lr(n=1):
        r = h.rng(line[0], line[0] + n); line[0] += n + 1
        return r
    out = []
    for b in blocks:
        k = b['k']
        if k == 'Para': out.append(h.para([h.istr(b['t'])], lr()))
        elif k == 'Header': out.append(h.header(b['lv'], [h.istr(b['t'])], lr()))
        elif k == 'Ref': out.append(h.para([h.ilink(b['url'], b['t'])], lr()))
        elif k == 'Code': out.append(h.code(b['t'], b.get('lang'), lr(3)))
        elif k == 'Rule': out.append(h.rule(lr()))
        elif k == 'Quote': out.append(h.quote(neutral_to_vals(h, b['c'], line), lr(0)))
        elif k in ('Bullet', 'Ordered'):
            items = [neutral_to_vals(h, it, line) for it in b['items']]
            out.append(h.bullets(items) if k == 'Bullet' else h.ordered(items))
        else:
            raise Unsupported('neutral_to_vals: ' + k)
    return out

def flat_tokens(seq):
    return list(tokens_of(seq))

def count_kind(seq, kind):
    n = 0
    for x in seq:
        if x[0] == kind:
            n += 1
        if x[0] == 'Quote':
            n += count_kind(x[1], kind)
        elif x[0] in ('Bullet', 'Ordered'):
            for it in x[1]:
                n += count_kind(it[1:], kind)
    return n

def refs_in(seq, out):
    for x in seq:
        if x[0] == 'Ref':
            out.append((x[1], x[2]))
        elif x[0] == 'Quote':
            refs_in(x[1], out)
        elif x[0] in ('Bullet', 'Ordered'):
            for it in x[1]:
                refs_in(it[1:], out)
    return out

def item_list_path(seq, item_text, path=()):
    """path of the list whose direct item has this text (first in pre-order)"""
    for i, x in enumerate(seq):
        if x[0] in ('Bullet', 'Ordered'):
            for j, it in enumerate(x[1]):
                if it[0][1] == item_text:
                    return path + (i,)
            for j, it in enumerate(x[1]):
                r = item_list_path(list(it[1:]), item_text, path + (i, j))
                if r is not None:
                    return r
        elif x[0] == 'Quote':
            r = item_list_path(list(x[1]), item_text, path + (i,))
            if r is not None:
                return r
    return None

def flip_positions(a, b, path=()):
    """positions where two normal forms differ only by Bullet <-> Ordered; None if they differ otherwise"""
    if len(a) != len(b):
        return None
    out = []
    for i, (x, y) in enumerate(zip(a, b)):
        if x == y:
            continue
        if x[0] in ('Bullet', 'Ordered') and y[0] in ('Bullet', 'Ordered'):
            if x[0] != y[0]:
                out.append(path + (i,))
            if len(x[1]) != len(y[1]):
                return None
            for j, (ix, iy) in enumerate(zip(x[1], y[1])):
                if ix[0] != iy[0]:
                    return None
                sub = flip_positions(list(ix[1:]), list(iy[1:]), path + (i, j))
                if sub is None:
                    return None
                out += sub
        elif x[0] == 'Quote' and y[0] == 'Quote':
            sub = flip_positions(list(x[1]), list(y[1]), path + (i,))
            if sub is None:
                return None
            out += sub
        else:
            return None
    return out

class ActionsHarness(Harness):
    name = 'code_actions'
    real_functions = ('SectionExtract::{action,changes,extract,extract_rec}', 'SubSectionsExtract::{action,changes}', 'ReferenceInlineSection::{action,changes}',
                      'ReferenceInlineQuote::{action,changes}', 'SectionToList::{action,changes}', 'ListToSections::{action,changes}',
                      'ListChangeType::{action,changes}', 'Tree::{extract_sections,remove_node,append_pre_header,replace,find,get,wrap_into_list,unwrap_list,'
                      'change_list_type,get_surrounding_list_id,get_top_level_surrounding_list_id,get_surrounding_section_id,is_header,'
                      'pre_sub_header_position,reference_key}', 'GraphContext::{collect,key_of,random_key}', 'Projector::*', 'TreeIter::*')
    required_covers = ('extract-section', 'extract-sub-sections', 'inline-section', 'inline-quote', 'section-to-list', 'list-to-sections',
                       'list-change-type', 'not-offered')
    tv_every = 29
    tv_phase = 0

    def __init__(self, prog, tier='quick', mode='all'):
        Harness.__init__(self, prog, tier)
        self.mode = mode
        self.two_step = True
        self.providers = PROVIDERS
        self.kinds = ('Para', 'Header', 'Ref', 'Bullet', 'Ordered', 'Quote')
        self.nest = 2
        self.budget = 3 if tier == 'quick' else 4
        if mode == 'lists':
            self.name = 'code_actions_lists'
            self.providers = ['ListChangeType', 'ListToSections']
            self.kinds = ('Para', 'Bullet', 'Ordered')
            self.nest = 3
            self.budget = 4 if tier == 'quick' else 6
            self.required_covers = ('list-to-sections', 'list-change-type')
        self.bounds = {'blocks_in_note': self.budget, 'nesting': 2, 'target': 'every node of the note, every provider', 'referenced note': 'd/b (sub-directory, with its own reference), missing note zz'}
        self.ctx_pat = re.compile(r'as ActionContext>::(\w+)$')
        self.md_pat = re.compile(r"NodeIter(<'_>)?>::(to_markdown|to_default_markdown)$")

    # ---- environment stubs
    def stub_ctx(self, ex, c, args, dt):
        m = c.method
        g = self.gref
        if m == 'key_of':
            return ex.call('<&Graph as GraphContext>::key_of', [Ref(Cell(g)), args[1]])
        if m == 'collect':
            return ex.call('<&Graph as GraphContext>::collect', [Ref(Cell(g)), args[1]])
        if m == 'squash':
            return ex.call('<&Graph as GraphContext>::squash', [Ref(Cell(g)), args[1], args[2]])
        if m == 'random_key':
            return ex.call('<&Graph as GraphContext>::random_key', [Ref(Cell(g)), args[1]])
        if m == 'markdown_options':
            return Ref(self.opts)
        if m == 'patch':
            return ex.call('Graph::new_patch', [g])
        raise Unsupported('ActionContext::' + m)

    def stub_rand(self, ex, c, args, dt):
        """environment: the random generator may return any string; the first draw collides with an existing note name"""
        self.rand_n += 1
        return 'A' if self.rand_n == 1 else 'R%d' % self.rand_n

    def stub_md(self, ex, c, args, dt):
        parent = args[1] if c.method == 'to_markdown' else Ref(Cell(''))
        blocks = ex.call("Projector::project::<TreeIter<'_>>", [args[0], parent])
        return Opaque('Blocks', std_json(pyval(blocks)))

    def build(self, ctx, ex, docs):
        h = self.h
        g = ex.call('Graph::new', [])
        gref = Ref(Cell(g))
        for key, dv in docs:
            kc = Cell(h.key(key))
            b = ex.call('Graph::build_key', [gref, Ref(kc)])
            ex.call("SectionsBuilder::<'_>::new", [Ref(Cell(b)), Ref(Cell(h.vec(dv))), Ref(kc)])
        return g, gref

    def run(self, ctx, ex):
        h = self.h
        layout = ctx.choose(2) if self.mode == 'all' else 0          # 0: source in the root, referenced note in d/ ; 1: both in d/
        src = 'a' if layout == 0 else 'd/a'
        self.src = src
        burl = 'd/b' if layout == 0 else 'b'
        gen = NoteGen(self, ctx, self.budget, self.nest, [burl, 'zz'], self.kinds)
        an, av = gen.seq(0, min_len=1)
        bn = [{'k': 'Header', 't': 'B0', 'lv': 1}, {'k': 'Para', 't': 'B1'}, {'k': 'Ref', 't': 'B2', 'url': 'x'}]
        bv = [h.header(1, [h.istr('B0')], h.rng(0, 1)), h.para([h.istr('B1')], h.rng(2, 3)), h.para([h.ilink('x', 'B2')], h.rng(4, 5))]
        g, gref = self.build(ctx, ex, [(src, av), ('d/b', bv)])
        self.gref = gref
        self.opts = Cell(ex.call('<MarkdownOptions as Default>::default', [], 'model::config::MarkdownOptions'))
        self.rand_n = 0
        self.prog.overrides = {self.ctx_pat: self.stub_ctx, self.md_pat: self.stub_md, re.compile(r'sample_string'): self.stub_rand,
                               re.compile(r'thread_rng$'): lambda ex, c, args, dt: Opaque('ThreadRng')}
        nodes = h_doc.arena_std(g)
        a_root = g.get('keys').d[('model::Key', src)][1].v
        b_root = g.get('keys').d[('model::Key', 'd/b')][1].v
        ids = [n['id'] for n in nodes if n['kind'] not in ('Empty', 'Document') and a_root < n['id'] < b_root]
        prov = self.providers[ctx.choose(len(self.providers))]
        tid = ids[ctx.choose(len(ids))]
        tkind = nodes[tid]['kind']
        ctx.input_desc = {'source': src, 'note': describe(an), 'provider': prov, 'target': '%s#%d %s' % (tkind, tid, nodes[tid].get('text') or '')}
        ctx.input_tree = an
        ctx.target = (prov, tid, src)
        pv = Struct('router::server::action::' + prov, [], [])
        cx = Opaque('HarnessActionContext')
        info = {'input': ctx.input_desc}
        orig_a = out_seq(self.project(ex, gref, src, 'd' if layout else ''), [])
        orig_b = out_seq(self.project(ex, gref, 'd/b', 'd'), [])
        act = ex.call('<%s as ActionProvider>::action::<Ctx>' % prov, [Ref(Cell(pv)), tid, cx])
        if act.vi == 0:
            ctx.cover('not-offered')
            # an action that is not offered must not be resolvable into edits either way: nothing to check
            return dict(info, offered=False)
        ch = ex.call('<%s as ActionProvider>::changes::<Ctx>' % prov, [Ref(Cell(pv)), tid, cx])
        if not ctx.law('C12.offered-action-resolves', ch.vi == 1, dict(info, why='changes() returned None for an offered action: handle_code_action_resolve unwraps it')):
            return dict(info, offered=True)
        changes = self.read_changes(ch.f[0].v)
        info['changes'] = [(c[0], c[1]) for c in changes]
        self.judge(prov, tid, nodes, an, orig_a, orig_b, changes, ctx.law, info, ctx, src=src)
        if self.two_step and not ctx.violations:
            self.second_step(ctx, ex, prov, tid, nodes, src, layout, orig_a, bn, bv, changes, info)
        if self.tv_pick(ctx.trace):
            ctx.tv = None
        return dict(info, offered=True)

    # ---- the inverse action on the edited note restores the formatted original
    def second_step(self, ctx, ex, prov, tid, nodes, src, layout, orig_a, bn, bv, changes, info):
        h = self.h
        inverse = {'ListChangeType': 'ListChangeType', 'SectionToList': 'ListToSections', 'SectionExtract': 'ReferenceInlineSection'}.get(prov)
        if inverse is None:
            return
        ttext = nodes[tid].get('text')
        updates = {k: b for op, k, b in changes if op == 'Update'}
        new_src = updates.get(src)
        if not isinstance(new_src, list):
            return
        seq = out_seq(new_src, [])
        if prov == 'SectionToList':
            # only when the new list is not adjacent to another list (the statement's side condition)
            p = item_list_path(seq, ttext)
            if p is None or len(p) != 1:
                return
            i = p[0]
            if (i > 0 and seq[i - 1][0] in ('Bullet', 'Ordered')) or (i + 1 < len(seq) and seq[i + 1][0] in ('Bullet', 'Ordered')):
                return
        if prov == 'SectionExtract':
            # only for the first sub-section of its parent (the statement's side condition), and only top-level parents
            parent = nodes[tid].get('prev')
            if parent is None or nodes[parent]['kind'] != 'Section' or nodes[parent].get('child') is None:
                return
            first_sub = None
            i = nodes[parent]['child']
            while i is not None:
                if nodes[i]['kind'] == 'Section':
                    first_sub = i; break
                i = nodes[i].get('next')
            if first_sub != tid:
                return
        docs = [(src, neutral_to_vals(h, blocks_to_neutral(new_src)))]
        for k, b in updates.items():
            if k != src and isinstance(b, list):
                docs.append((k, neutral_to_vals(h, blocks_to_neutral(b))))
        docs.append(('d/b', bv))
        g2, gref2 = self.build(ctx, ex, docs)
        saved = self.gref
        self.gref = gref2
        try:
            nodes2 = h_doc.arena_std(g2)
            root2 = g2.get('keys').d[('model::Key', src)][1].v
            ends = sorted(c.v for k, (kv, c) in g2.get('keys').d.items())
            nxt = min([r for r in ends if r > root2] or [len(nodes2)])
            cand = None
            for n in nodes2:
                if root2 < n.get('id', -1) < nxt:
                    if inverse == 'ReferenceInlineSection':
                        if n['kind'] == 'Reference' and n.get('ref_text') == ttext:
                            cand = n['id']; break
                    elif n['kind'] == 'Section' and n.get('text') == ttext:
                        cand = n['id']; break
            if cand is None:
                ctx.law('%s.inverse-action-target-exists' % ('C09' if prov == 'SectionExtract' else 'C10'), False, dict(info, looking_for=ttext, after_first_action=seq))
                return
            pv = Struct('router::server::action::' + inverse, [], [])
            cx = Opaque('HarnessActionContext')
            act = ex.call('<%s as ActionProvider>::action::<Ctx>' % inverse, [Ref(Cell(pv)), cand, cx])
            lawp = 'C09' if prov == 'SectionExtract' else 'C10'
            if not ctx.law(lawp + '.inverse-action-is-offered', act.vi == 1, dict(info, inverse=inverse, after_first_action=seq)):
                return
            ch = ex.call('<%s as ActionProvider>::changes::<Ctx>' % inverse, [Ref(Cell(pv)), cand, cx])
            if ch.vi != 1:
                ctx.law(lawp + '.inverse-action-is-offered', False, dict(info, inverse=inverse))
                return
            ch2 = self.read_changes(ch.f[0].v)
            back = [b for op, k, b in ch2 if op == 'Update' and k == src]
            got = out_seq(back[0], []) if back and isinstance(back[0], list) else None
            name = {'ListChangeType': 'C10.changing-the-list-type-twice-restores-the-note',
                    'SectionToList': 'C10.section-to-list-then-list-to-sections-restores-the-note',
                    'SectionExtract': 'C09.extract-first-sub-section-then-inline-restores-the-note'}[prov]
            ctx.law(name, got == orig_a, dict(info, original=orig_a, after_first=seq, after_second=got))
            ctx.cover('two-step:' + prov)
        finally:
            self.gref = saved

    def project(self, ex, gref, key, parent):
        t = ex.call('<&Graph as GraphContext>::collect', [Ref(Cell(gref)), Ref(Cell(self.h.key(key)))])
        it = ex.call('Tree::iter', [Ref(Cell(t))])
        return std_json(pyval(ex.call("Projector::project::<TreeIter<'_>>", [it, Ref(Cell(parent))])))

    def read_changes(self, vec):
        out = []
        for c in vec.items:
            ch = c.v
            s = ch.f[0].v
            key = pyval(s.get('key'))['relative_path']
            if ch.vn == 'Update':
                md = s.get('markdown')
                out.append(('Update', key, md.data if type(md) is Opaque else md))
            else:
                out.append((ch.vn, key, None))
        return out

    def tv_pick(self, trace):
        return False

    # ---- laws
    def judge(self, prov, tid, nodes, an, orig_a, orig_b, changes, law, info, ctx=None, src='a'):
        existing = {src, 'd/b'}
        in_d = src.startswith('d/')
        created = [k for op, k, _ in changes if op == 'Create']
        removed = [k for op, k, _ in changes if op == 'Remove']
        updates = {}
        for op, k, blocks in changes:
            if op == 'Update':
                law('C09.one-update-per-note', k not in updates, dict(info, key=k))
                updates[k] = out_seq(blocks, []) if isinstance(blocks, list) else None
        law('C09.source-note-updated', src in updates and updates[src] is not None, info)
        if src not in updates or updates[src] is None:
            return
        new_a = updates[src]
        tok_a, tok_b = flat_tokens(orig_a), flat_tokens(orig_b)
        all_out = [t for k in sorted(updates) for t in flat_tokens(updates[k] or [])]
        tnode = nodes[tid]
        ttext = tnode.get('text')
        if prov in ('SectionExtract', 'SubSectionsExtract'):
            law('C09.new-notes-have-fresh-distinct-names', len(set(created)) == len(created) and not (set(created) & existing) and 'zz' not in created, dict(info, created=created))
            law('C09.every-created-note-gets-content', set(created) == set(updates) - {src}, dict(info, created=created, updated=sorted(updates)))
            # every piece of text once; each extracted heading additionally titles exactly one reference
            titles = []
            for k in created:
                blocks = updates.get(k) or []
                ok = bool(blocks) and blocks[0][0] == 'Header'
                law('C09.extracted-note-starts-with-its-heading', ok, dict(info, note=k, blocks=blocks))
                if ok:
                    titles.append((k, blocks[0][1]))
            exp = sorted(tok_a + [t for k, t in titles])
            law('C09.text-conserved-exactly-once', sorted(all_out) == exp, dict(info, expected=exp, actual=sorted(all_out)))
            refs = refs_in(new_a, [])
            orig_refs = refs_in(orig_a, [])
            new_refs = list(refs)
            for r in orig_refs:
                if r in new_refs:
                    new_refs.remove(r)
            from h_lib import resolve
            law('C09.one-reference-per-extracted-section-titled-with-heading', sorted((resolve(u, src), t) for u, t in new_refs) == sorted((k, t) for k, t in titles),
                dict(info, new_references=new_refs, extracted=titles))
            if prov == 'SectionExtract':
                law('C09.extracted-section-is-the-target', len(titles) == 1 and titles[0][1] == ttext, dict(info, titles=titles, target=ttext))
            # links keep resolving: references inside extracted notes (same directory here) unchanged
            for k in created:
                for u, t in refs_in(updates.get(k) or [], []):
                    law('C09.links-keep-resolving', (u, t) in orig_refs, dict(info, note=k, link=(u, t)))
            if ctx: ctx.cover('extract-section' if prov == 'SectionExtract' else 'extract-sub-sections')
        elif prov in ('ReferenceInlineSection', 'ReferenceInlineQuote'):
            rkey = tnode.get('key', {}).get('relative_path')
            law('C09.inlined-note-is-deleted', removed == [rkey], dict(info, removed=removed, reference=rkey))
            exp = list(tok_a)
            if ttext is not None and False:
                pass
            # the reference's own text disappears, the referenced note's text arrives once
            ref_tok = [t for u, t in refs_in(orig_a, []) if True]
            tgt_tok = self.ref_token(an, tid, nodes)
            exp = sorted([t for t in tok_a if t != tgt_tok] + tok_b)
            law('C09.text-conserved-exactly-once', sorted(all_out) == exp, dict(info, expected=exp, actual=sorted(all_out)))
            law('C09.reference-removed', (rkey, tgt_tok) not in refs_in(new_a, []) and ('d/b', tgt_tok) not in refs_in(new_a, []) and ('b', tgt_tok) not in refs_in(new_a, []), dict(info, refs=refs_in(new_a, [])))
            # links of the inlined content keep resolving from their new location (d/b's `x` is d/x)
            inl_refs = [u for u, t in refs_in(new_a, []) if t == 'B2']
            exp_url = 'x' if in_d else 'd/x'
            law('C09.links-keep-resolving', inl_refs == [exp_url], dict(info, inlined_reference_urls=inl_refs, expected=[exp_url]))
            if prov == 'ReferenceInlineQuote':
                law('C09.inlined-as-quote', count_kind(new_a, 'Quote') == count_kind(orig_a, 'Quote') + 1, info)
            if ctx: ctx.cover('inline-section' if prov == 'ReferenceInlineSection' else 'inline-quote')
        else:
            law('C10.only-the-note-is-rewritten', not created and not removed and set(updates) == {src}, dict(info, created=created, removed=removed))
            law('C10.every-word-and-link-kept-in-order', flat_tokens(new_a) == tok_a, dict(info, expected=tok_a, actual=flat_tokens(new_a)))
            law('C10.links-kept', sorted(refs_in(new_a, [])) == sorted(refs_in(orig_a, [])), info)
            if prov == 'ListChangeType':
                fl = flip_positions(orig_a, new_a)
                law('C10.only-the-targeted-list-changes-type', fl is not None and len(fl) == 1, dict(info, flips=fl, before=orig_a, after=new_a))
                want = item_list_path(orig_a, ttext)
                if fl is not None and len(fl) == 1 and want is not None:
                    law('C10.the-list-holding-the-cursor-item-changes-type', fl[0] == want, dict(info, flipped=fl[0], expected=want))
                if ctx: ctx.cover('list-change-type')
            elif prov == 'ListToSections':
                nl = count_kind(orig_a, 'Bullet') + count_kind(orig_a, 'Ordered')
                nl2 = count_kind(new_a, 'Bullet') + count_kind(new_a, 'Ordered')
                law('C10.exactly-one-list-unwrapped', nl2 < nl, dict(info, lists_before=nl, lists_after=nl2))
                law('C10.list-items-became-headings', count_kind(new_a, 'Header') > count_kind(orig_a, 'Header'), info)
                if ctx: ctx.cover('list-to-sections')
            else:
                nl = count_kind(orig_a, 'Bullet') + count_kind(orig_a, 'Ordered')
                nl2 = count_kind(new_a, 'Bullet') + count_kind(new_a, 'Ordered')
                law('C10.section-became-a-list', nl2 >= nl + 1 and count_kind(new_a, 'Header') < count_kind(orig_a, 'Header'), dict(info, lists_before=nl, lists_after=nl2))
                if ctx: ctx.cover('section-to-list')

    def ref_token(self, an, tid, nodes):
        return nodes[tid].get('ref_text')

    def ref_text_of(self, node):
        return node.get('ref_text')

    def on_panic(self, ctx, ex, e, res):
        ctx.violations.append({'law': 'C12.no-panic-in-action', 'model': {},
                               'info': {'msg': res['detail'], 'where': res.get('where'), 'input': getattr(ctx, 'input_desc', None)}})

    def finish_violation(self, ctx, v):
        prov, tid, src = getattr(ctx, 'target', (None, None, 'a'))
        v['input_tree'] = {'note': concretize_tree(getattr(ctx, 'input_tree', []), {}), 'provider': prov, 'target': tid, 'source': src}
        role = 'general'
        msg = (v['info'].get('msg') or '') + (v['info'].get('why') or '')
        tree = getattr(ctx, 'input_tree', [])
        if v['law'].startswith('C12.'):
            if prov in ('ReferenceInlineSection', 'ReferenceInlineQuote') and 'to have key' in msg:
                role = 'inline-dangling-reference'
            elif prov == 'ReferenceInlineSection' and 'returned None' in msg:
                role = 'inline-section-reference-outside-any-section'
        v['role'] = role

    def replay(self, v, driver):
        d = v['input_tree']
        src = d.get('source', 'a')
        script = [{'op': 'doc', 'key': src, 'blocks': d['note']},
                  {'op': 'doc', 'key': 'd/b', 'blocks': [{'k': 'Header', 't': 'B0', 'lv': 1}, {'k': 'Para', 't': 'B1'}, {'k': 'Ref', 't': 'B2', 'url': 'x'}]},
                  {'op': 'project', 'key': src}, {'op': 'project', 'key': 'd/b'}, {'op': 'arena'},
                  {'op': 'action', 'provider': d['provider'], 'target': d['target']}]
        res = driver.run(script)
        v['replay_script'], v['replay_result'] = script, res
        last = res[-1]
        if isinstance(last, dict) and 'panic' in last:
            v['replay_verdict'] = 'native panic: ' + last['panic'][:120]
            return v['law'].startswith('C12.')
        if v['law'] == 'C12.no-panic-in-action':
            v['replay_verdict'] = 'no native panic'
            return False
        if last.get('offered') and last.get('changes') is None:
            v['replay_verdict'] = 'native: offered but changes() is None'
            return v['law'] == 'C12.offered-action-resolves'
        if not last.get('offered'):
            v['replay_verdict'] = 'native: action not offered'
            return False
        orig_a, orig_b = out_seq(res[2], []), out_seq(res[3], [])
        changes = [(c['op'], c['key'], c.get('blocks')) for c in last['changes']]
        failed = []
        def law(name, ok, info=None):
            if ok is not True:
                failed.append(name)
            return ok is True
        self.judge(d['provider'], d['target'], res[4], d['note'], orig_a, orig_b, changes, law, {}, None, src=src)
        v['replay_verdict'] = 'native laws violated: %s' % failed
        return v['law'] in failed
