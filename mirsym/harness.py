"""Harness base class."""
from hlib import *

class Harness:
    name = 'base'
    prop = None
    z3_timeout_ms = 10000
    max_steps = 3_000_000
    max_depth = 600
    keep_pc = True
    required_covers = ()
    bounds = {}
    real_functions = ()     # documentation: entry points executed from MIR

    def __init__(self, prog, tier='quick'):
        self.prog = prog
        self.tier = tier
        self.h = H(prog)

    def run(self, ctx, ex):
        raise NotImplementedError

    def on_panic(self, ctx, ex, e, res):
        """default: a reachable panic is recorded as a violation of law 'no-panic'"""
        res['violations_extra'] = True
        ctx.violations.append({'law': 'no-panic', 'model': ctx.model(), 'info': {'msg': res['detail'], 'where': res.get('where'),
                               'input': getattr(ctx, 'input_desc', None)}})
