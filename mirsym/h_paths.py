"""H18: outline paths.  Real graph_to_paths / paths_for_node / NodePath / is_in_list / to_parent / node_rank / Graph::search_paths
over libraries imported through the real Graph::import (parser stubbed as in the library harness)."""
import z3
from harness import *
import h_lib
from h_lib import mk_doc, ordinals, name_id, resolve
from h_doc import arena_std

class Outline:
    """independent reading of the input documents: headings outside lists/quotes, their nesting, direct block references"""
    def __init__(self, docs, ge=None):
        self.ge = ge or (lambda a, b: a >= b)
        self.heads = {}        # (note, ordinal) -> {'t', 'parent': (note, ord) or None, 'refs': [target keys placed directly in this section]}
        self.top_refs = {}     # note -> targets referenced outside any section
        self.incoming = {}     # target -> list of ('section', (note, ord)) | ('top', note) | ('nested', note)
        for note, blocks in docs.items():
            self.scan(note, blocks)

    def scan(self, note, blocks):
        n = [0]
        stack = []            # [(level, (note, ord))]
        self.top_refs[note] = []
        def walk(bs, nested):
            for b in bs:
                k = b['k']
                if k == 'Meta':
                    continue
                o = n[0]; n[0] += 1
                if k == 'Header' and not nested:
                    while stack and self.ge(stack[-1][0], b['lv']):
                        stack.pop()
                    self.heads[(note, o)] = {'t': b['t'], 'parent': stack[-1][1] if stack else None, 'refs': [], 'lv': b['lv']}
                    stack.append((b['lv'], (note, o)))
                elif k == 'Ref':
                    tgt = resolve(b['url'], note)
                    if nested:
                        self.incoming.setdefault(tgt, []).append(('nested', note))
                    elif stack:
                        self.heads[stack[-1][1]]['refs'].append(tgt)
                        self.incoming.setdefault(tgt, []).append(('section', stack[-1][1]))
                    else:
                        self.top_refs[note].append(tgt)
                        self.incoming.setdefault(tgt, []).append(('top', note))
                elif k == 'Quote':
                    walk(b['c'], True)
                elif k in ('Bullet', 'Ordered'):
                    for it in b['items']:
                        walk(it, True)
        walk(blocks, False)

    def tops(self, note):
        return [h for h, d in sorted(self.heads.items()) if h[0] == note and d['parent'] is None]

    def children(self, h):
        return [c for c, d in sorted(self.heads.items()) if d['parent'] == h]

    def expected_paths(self, notes):
        """forward enumeration from root notes; a path never passes through the same note twice by inclusion"""
        out = set()
        roots = [k for k in notes if not self.incoming.get(k)]
        def dfs(path, h, docs_seen):
            path = path + [h]
            out.add(tuple(path))
            for c in self.children(h):
                dfs(path, c, docs_seen)
            for tgt in self.heads[h]['refs']:
                self.descend(tgt, path, docs_seen, dfs, notes)
        for r in roots:
            for t in self.tops(r):
                dfs([], t, {r})
        return out

    def descend(self, tgt, path, docs_seen, dfs, notes):
        if tgt not in notes or tgt in docs_seen:
            return
        seen = docs_seen | {tgt}
        for t in self.tops(tgt):
            dfs(path, t, seen)
        for t2 in self.top_refs.get(tgt, []):      # a reference outside any section passes the includer's path on
            self.descend(t2, path, seen, dfs, notes)

class PathsHarness(h_lib.LibHarness):
    name = 'outline_paths'
    real_functions = ('graph_to_paths', 'paths_for_node', 'NodePath::*', 'NodeIter::is_in_list', 'NodePointer::to_parent/to_prev/is_parent_of',
                      'Graph::node_key/get_block_references_to', 'RefIndex::*', 'Graph::import', 'Graph::search_paths', 'node_rank')
    required_covers = ('nested-heading', 'inclusion-step', 'cycle', 'heading-in-list-or-quote', 'shared-sub-note')

    def __init__(self, prog, tier='quick'):
        h_lib.LibHarness.__init__(self, prog, tier)
        self.name = 'outline_paths'
        self.required_covers = PathsHarness.required_covers
        self.notes = ['a', 'b'] if tier == 'quick' else ['a', 'b', 'c']
        self.max_el = 3 if tier == 'quick' else 3
        self.bounds = {'notes': len(self.notes), 'elements_per_note': self.max_el, 'heading_levels': '1..2 (well nested)',
                       'references': 'to every note incl. self and a missing one; under a heading, at top level, inside a list item'}
        self.max_depth = 3000

    def gen_note(self, ctx, targets, idx=0):
        spec = []
        have_h1 = False
        prev_lv = None
        quick = self.tier == 'quick'
        for i in range(self.max_el if (idx == 0 or not quick) else 2):
            if quick and idx == 0:
                extra = [('L', targets[0])]
            elif quick:
                extra = [('QH',), ('LH',)]
            else:
                extra = [('L', targets[0]), ('QH',), ('LH',), ('P',)]
            menu = [('H',)] + [('R', t) for t in targets] + extra
            c = ctx.choose(len(menu) + (1 if spec else 0))
            if c == len(menu):
                break
            e = menu[c]
            if e == ('H',):
                # symbolic level; the outline of a note is well nested (starts at 1, never skips)
                lv = ctx.sym_bv('lv_%s_%d' % (targets[-1] if False else self.cur_note, i), 8)
                if prev_lv is None:
                    ctx.assume(lv == 1)
                else:
                    ctx.assume(z3.And(z3.UGE(lv, 1), z3.ULE(lv, prev_lv + 1), z3.ULE(lv, 6)))
                prev_lv = lv
                e = ('H', lv)
            spec.append(e)
        return spec

    def run(self, ctx, ex):
        h = self.h
        self.cur_docs = {}
        self.prog.overrides = {self.stub_pat: self.stub_document}
        counter = [0]
        texts, specs = {}, {}
        for n in self.notes:
            targets = [k for k in self.notes if k != n] + [n, 'zz']
            if self.tier == 'quick':
                targets = targets[:2]
            if self.tier == 'quick' and n != self.notes[0]:
                targets = [self.notes[0], n]
            self.cur_note = n
            specs[n] = self.gen_note(ctx, targets, self.notes.index(n))
            texts[n] = self.new_token(specs[n], h, counter)
        ctx.input_desc = {n: [tuple(str(x) for x in e) for e in s] for n, s in specs.items()}
        ctx.specs = specs
        ctx.doc_tokens = texts
        g = self.fresh(ex, texts)
        gref = Ref(Cell(g))
        info = {'input': specs}
        try:
            ps = ex.call('Graph::paths', [gref])
        except BoundExceeded as e:
            ctx.law('C18.listing-finite', False, dict(info, bound=str(e)))
            return info
        ctx.law('C18.listing-finite', True)
        nodes = arena_std(g)
        keys = {k[1]: c.v for k, (kv, c) in g.get('keys').d.items()}
        om = ordinals(nodes, keys)
        got = [tuple(name_id(c.v, nodes, om) for c in p.get('ids').items) for p in (x.v for x in ps.items)]
        docs = {n: self.cur_docs[texts[n]][0] for n in self.notes}
        self.judge(docs, got, nodes, om, ctx.law, info, ctx, ge=lambda a, b: ctx.branch(z3.UGE(a, b)) if (z3.is_expr(a) or z3.is_expr(b)) else a >= b)
        # ---- ordering of the search list: most referenced first
        sp = ex.call('Graph::search_paths', [gref])
        ranks = [p.get('node_rank') for p in (x.v for x in sp.items)]
        ctx.law('C18.search-list-ordered-by-reference-count', all(a >= b for a, b in zip(ranks, ranks[1:])), dict(info, ranks=ranks))
        ol = Outline(docs, lambda a, b: ctx.branch(z3.UGE(a, b)) if (z3.is_expr(a) or z3.is_expr(b)) else a >= b)
        for p in (x.v for x in sp.items):
            ids = [c.v for c in p.get('path').get('ids').items]
            last = name_id(ids[-1], nodes, om)
            exp_rank = 0
            if last in ol.heads and ol.heads[last]['parent'] is None and last[1] == 0:
                exp_rank = self.ref_count(docs, last[0])
            ctx.law('C18.rank-is-reference-count-of-note', p.get('node_rank') == exp_rank, dict(info, path=str(last), rank=p.get('node_rank'), expected=exp_rank))
        if self.tv_pick(ctx.trace):
            ctx.tv = {'script': [{'op': 'import', 'state': {n + '.md': t for n, t in self.texts_md(ctx, ctx.model()).items()}}, {'op': 'paths'}, {'op': 'arena'}, {'op': 'keys'}],
                      'expect': None, 'post': sorted([list(x) for x in p] for p in got)}
        return {'input': str(specs)[:300], 'paths': str(got)[:300]}

    def concrete_docs(self, ctx, model):
        from h_doc import concretize_tree
        return {n: concretize_tree(self.cur_docs[ctx.doc_tokens[n]][0], model or {}) for n in self.notes}

    def texts_md(self, ctx, model):
        return {n: h_lib.render_neutral(d) for n, d in self.concrete_docs(ctx, model).items()}

    def ref_count(self, docs, note):
        eb, ei = {}, {}
        for k, d in docs.items():
            h_lib.scan_links(d, k, eb, ei, [0])
        return len(eb.get(note, ())) + len(ei.get(note, ()))

    def judge(self, docs, got, nodes, om, law, info, ctx=None, ge=None):
        ol = Outline(docs, ge)
        notes = sorted(docs)
        exp = ol.expected_paths(notes)
        gs = set(got)
        law('C18.no-duplicate-paths', len(gs) == len(got), dict(info, paths=got))
        # soundness: each listed path is a real chain
        for p in sorted(gs):
            ok = all(x in ol.heads for x in p) and bool(p)
            if ok:
                ok = ol.heads[p[0]]['parent'] is None and not ol.incoming.get(p[0][0])
                for a, b in zip(p, p[1:]):
                    step = (ol.heads[b]['parent'] == a) or (ol.heads[b]['parent'] is None and b[0] != a[0] and self.includes(ol, a, b[0], set()))
                    ok = ok and step
            law('C18.listed-path-is-real-chain', ok, dict(info, path=[list(x) for x in p]))
        missing = sorted(exp - gs)
        law('C18.every-chain-from-a-root-is-listed', not missing, dict(info, missing=[[list(x) for x in p] for p in missing[:4]]))
        # completeness for every heading outside lists / quotes
        ends = {p[-1] for p in gs}
        for hd in sorted(ol.heads):
            if hd not in ends:
                law('C18.every-heading-ends-a-path', False, dict(info, heading=list(hd), cause=self.cause(ol, hd, notes)))
            else:
                law('C18.every-heading-ends-a-path', True)
        if ctx:
            if any(d['parent'] is not None for d in ol.heads.values()): ctx.cover('nested-heading')
            if any(len({x[0] for x in p}) > 1 for p in gs): ctx.cover('inclusion-step')
            if self.has_cycle(ol, notes): ctx.cover('cycle')
            if any(s[0] in ('QH', 'LH') for sp in ctx.specs.values() for s in sp): ctx.cover('heading-in-list-or-quote')
            if any(len([1 for x in v if x[0] == 'section']) > 1 for v in ol.incoming.values()): ctx.cover('shared-sub-note')

    def includes(self, ol, h, note, seen):
        """heading h includes `note` by a direct block reference (possibly through notes whose reference sits outside any section)"""
        for t in ol.heads[h]['refs']:
            if t == note or self.top_includes(ol, t, note, seen):
                return True
        return False

    def top_includes(self, ol, via, note, seen):
        if via in seen:
            return False
        seen = seen | {via}
        for t in ol.top_refs.get(via, []):
            if t == note or self.top_includes(ol, t, note, seen):
                return True
        return False

    def has_cycle(self, ol, notes):
        edges = {n: set() for n in notes}
        for tgt, inc in ol.incoming.items():
            for kind, src in inc:
                s = src if isinstance(src, str) else src[0]
                if tgt in edges and s in edges:
                    edges[s].add(tgt)
        def reach(a, b, seen):
            return any(x == b or (x not in seen and reach(x, b, seen | {x})) for x in edges[a])
        return any(reach(n, n, set()) for n in notes)

    def cause(self, ol, hd, notes):
        note = hd[0]
        inc = ol.incoming.get(note, [])
        if any(k == 'nested' for k, s in inc):
            return 'note-included-from-list-or-quote'
        if any(k == 'top' for k, s in inc):
            return 'note-included-outside-any-section'
        if inc:
            return 'note-reachable-only-through-reference-cycle'
        return 'general'

    def finish_violation(self, ctx, v):
        v['role'] = v['info'].get('cause', 'general') if v['law'] == 'C18.every-heading-ends-a-path' else 'general'
        v['input_tree'] = {'texts': self.texts_md(ctx, v.get('model')), 'docs': self.concrete_docs(ctx, v.get('model'))}

    def tv_compare(self, tv, native_out):
        if any(isinstance(x, dict) and 'panic' in x for x in native_out):
            return False
        ps, nodes, keys = native_out[1], native_out[2], native_out[3]
        om = ordinals(nodes, keys)
        got = sorted([list(name_id(x, nodes, om)) for x in p] for p in ps)
        return got == tv['post']

    def replay(self, v, driver):
        d = v['input_tree']
        script = [{'op': 'import', 'state': {n + '.md': t for n, t in d['texts'].items()}}, {'op': 'paths'}, {'op': 'arena'}, {'op': 'keys'}]
        res = driver.run(script, timeout=60)
        v['replay_script'] = script
        if any(isinstance(x, dict) and ('panic' in x or 'crash' in x) for x in res):
            v['replay_verdict'] = 'native: %s' % res[-1]
            return True
        ps, nodes, keys = res[1], res[2], res[3]
        om = ordinals(nodes, keys)
        got = [tuple(name_id(x, nodes, om) for x in p) for p in ps]
        docs = d['docs']
        failed = []
        def law(name, ok, info=None):
            if ok is not True:
                failed.append((name, (info or {}).get('cause')))
            return ok is True
        self.judge(docs, got, nodes, om, law, {}, None)
        v['replay_result'] = {'native_paths': [[list(x) for x in p] for p in got]}
        v['replay_verdict'] = 'native laws violated: %s' % failed[:4]
        return any(n == v['law'] for n, c in failed)
