"""H-render: the writer.  The real model::graph::blocks_to_markdown_sparce (GraphBlock::to_markdown, is_sparce_list,
left_pad_and_prefix, left_pad_and_prefix_num, inlines_to_markdown) is executed from MIR on GraphBlock trees of the shapes the
Projector emits; the text it produces is read back by the reference reader (mdref: CommonMark block structure) and must be
the tree that was written.  Symbolic: the number of items that precede the visible window of every top-level / quoted ordered
list (so item numbers, hence marker widths, are symbolic 64-bit values; the executor splits on the digit count by solver
queries).  The reference reader is validated against the real reader (pulldown-cmark via MarkdownReader) on sampled or all
paths, and every violation is replayed through the real writer and the real reader before it is reported."""
import re, zlib
import z3
from harness import *
import natives, mdref

G = 'model::graph::GraphBlock'

class RenderHarness(Harness):
    name = 'writer'
    real_functions = ('model::graph::blocks_to_markdown_sparce', 'GraphBlock::to_markdown', 'GraphBlock::is_sparce_list', 'left_pad_and_prefix',
                      'left_pad_and_prefix_num', 'blocks_to_markdown_and', 'inlines_to_markdown', 'GraphInline::to_markdown')
    required_covers = ('ordered-list-item-with-continuation', 'item-number-needs-3-digits', 'nested-list', 'quote-with-list', 'code-in-item', 'loose-list', 'tight-list')
    tv_every = 37
    tv_phase = 0
    aliases = ('C01', 'C02', 'C07', 'C10')

    def __init__(self, prog, tier='quick'):
        Harness.__init__(self, prog, tier)
        self.budget = 5
        self.digits = 3 if tier == 'quick' else 6
        self.max_items = 2 if tier == 'quick' else 3
        self.rich = tier != 'quick'
        self.bounds = {'blocks per tree': self.budget, 'nesting depth': 3,
                       'kinds': 'Header(1-2) Para Plain CodeBlock(indented line, lang or not) HorizontalRule BlockQuote BulletList OrderedList',
                       'item numbers': 'symbolic, < 10^%d: a top-level or quoted ordered list is the tail window of a list with a symbolic number of earlier items' % self.digits,
                       'domain': 'trees the Projector emits from a parse: items start with a paragraph, no empty list / item / quote, no two adjacent lists of one kind; one-word texts (escaping and inline mark-up are outside)'}
        self.seed = int(os.environ.get('VERIF_SEED', '0') or 0)
        self.tv_phase = self.seed % self.tv_every

    # ---- generator --------------------------------------------------------------------------------------------------
    def gen_blocks(self, ctx, st, depth, where):
        """a non-empty sequence of blocks; st['left'] is the remaining block budget"""
        out = []
        while st['left'] > 0:
            if out and ctx.choose(2) == 0:
                break
            prev = out[-1]['k'] if out else None
            kinds = ['P', 'C', 'R', 'Q', 'BL', 'OL'] if depth < 3 else ['P', 'C', 'R']
            if where == 'top':
                kinds = ['H'] + kinds
            kinds = [k for k in kinds if not (k in ('BL', 'OL') and k == prev)]
            if st['left'] < 2:
                kinds = [k for k in kinds if k not in ('Q', 'BL', 'OL')]      # a container needs a block of its own
            if where == 'item' and not out:
                kinds = ['PL', 'P'] if self.rich else ['PL']
            k = kinds[ctx.choose(len(kinds))]
            st['left'] -= 1
            if k in ('P', 'PL'):
                out.append({'k': k, 't': self.word(st)})
            elif k == 'H':
                out.append({'k': 'H', 'lv': 1 + (ctx.choose(2) if self.rich else 0), 't': self.word(st)})
            elif k == 'C':
                if self.rich:
                    v = ctx.choose(3)
                    lang = None if ctx.choose(2) == 0 else 'rs'
                else:
                    v = ctx.choose(2)
                    lang = 'rs' if v else None
                out.append({'k': 'C', 't': [self.word(st), '  ' + self.word(st) + '\n\n' + self.word(st), self.word(st) + '\n\n' + self.word(st)][v], 'lang': lang})
            elif k == 'R':
                out.append({'k': 'R'})
            elif k == 'Q':
                out.append({'k': 'Q', 'c': self.gen_blocks(ctx, st, depth + 1, 'quote')})
            else:
                items = []
                while st['left'] > 0 and len(items) < self.max_items:
                    items.append(self.gen_blocks(ctx, st, depth + 1, 'item'))
                    if ctx.choose(2) == 0:
                        break
                b = {'k': k, 'items': items}
                if k == 'OL' and where in ('top', 'quote'):
                    st['ol'] += 1
                    b['base'] = 'items_before_ordered_list_%d' % st['ol']
                out.append(b)
        return out

    def word(self, st):
        st['w'] += 1
        return 'w%d' % st['w']

    def build(self, ctx, b):
        p = self.prog
        S = lambda t: VecV([Cell(p.mk_enum('model::graph::GraphInline', 'Str', t))])
        V = lambda xs: VecV([Cell(x) for x in xs])
        k = b['k']
        if k == 'P': return p.mk_enum(G, 'Para', S(b['t']))
        if k == 'PL': return p.mk_enum(G, 'Plain', S(b['t']))
        if k == 'H': return p.mk_enum(G, 'Header', b['lv'], S(b['t']))
        if k == 'C': return p.mk_enum(G, 'CodeBlock', SOME(b['lang']) if b['lang'] else NONE(), b['t'])
        if k == 'R': return p.mk_enum(G, 'HorizontalRule')
        if k == 'Q': return p.mk_enum(G, 'BlockQuote', V([self.build(ctx, x) for x in b['c']]))
        items = [V([self.build(ctx, x) for x in it]) for it in b['items']]
        if b.get('base'):
            var = ctx.sym_bv(b['base'], 64)
            ctx.assume(z3.ULT(var, 10 ** self.digits - 8))
            self.bases[id(items[0])] = var
        return p.mk_enum(G, 'BulletList' if k == 'BL' else 'OrderedList', V(items))

    def enumerate_items(self, ex, c, a, dt):
        it = natives.to_iter(ex, a[0])
        e = natives.EnumerateIt(it)
        vals = it.remaining() if hasattr(it, 'remaining') else []
        if vals:
            first = natives.deref(vals[0])
            if isinstance(first, VecV) and id(first) in self.bases:
                e.n = self.bases[id(first)]          # the window starts after `base` earlier items
        return e

    # ---- the path ------------------------------------------------------------------------------------------------------
    def run(self, ctx, ex):
        prog = self.prog
        ctx.sym_digits = self.digits
        self.bases = {}
        prog.overrides = {re.compile(r'::enumerate$'): self.enumerate_items}
        st = {'left': self.budget, 'w': 0, 'ol': 0}
        tree = self.gen_blocks(ctx, st, 1, 'top')
        ctx.input_desc = {'blocks': tree}
        ctx.tree = tree
        vals = VecV([Cell(self.build(ctx, b)) for b in tree])
        opts = prog.mk_struct_lenient('model::config::MarkdownOptions', refs_extension='')
        text = natives.as_str(ex.call('model::graph::blocks_to_markdown_sparce', [Ref(Cell(vals)), Ref(Cell(opts))]))
        got = canon_tree(mdref.neutral(mdref.parse(text)))
        exp = canon_tree(expected(tree))
        info = {'input': ctx.input_desc, 'text': text[-600:], 'reads_back_as': got, 'written': exp}
        same_leaves = leaves(got) == leaves(exp)
        same_tree = got == exp
        for pid in self.aliases:
            ctx.law('%s.formatted-text-keeps-every-block' % pid, same_leaves, info)
            ctx.law('%s.formatted-text-keeps-the-nesting' % pid, same_tree, info)
        self.covers(ctx, tree, text)
        if self.tv_pick(ctx.trace):
            m, zero = self.small_model(ctx)
            if any(x > 20000 for k_, x in (m or {}).items() if k_.startswith('items_before')):
                return info          # validation sample only for lists the native (debug) build writes and reads quickly
            script = native_script(tree, m)
            ctx.tv = {'script': script, 'expect': None, 'post': ['render', {'text': text if zero else None, 'reading': got}]}
        return info

    def small_model(self, ctx):
        """a model of the path with the smallest item numbers of each digit class (keeps native replays small)"""
        fixed = []
        for v in self.bases.values():
            for cand in [0] + [10 ** k - 1 for k in range(1, self.digits)]:
                if ctx.model(z3.And(fixed + [v == cand])) is not None:
                    fixed.append(v == cand)
                    break
        m = ctx.model(z3.And(fixed)) if fixed else (ctx.model() if self.bases else {})
        zero = all(x == 0 for k, x in (m or {}).items() if k.startswith('items_before'))
        return m, zero

    def covers(self, ctx, tree, text):
        def walk(bs, inq):
            for b in bs:
                if b['k'] in ('BL', 'OL'):
                    if inq: ctx.cover('quote-with-list')
                    loose = any(sum(1 for x in it if x['k'] in ('P', 'PL')) > 1 for it in b['items'])
                    ctx.cover('loose-list' if loose else 'tight-list')
                    for it in b['items']:
                        if b['k'] == 'OL' and len(it) > 1: ctx.cover('ordered-list-item-with-continuation')
                        if any(x['k'] in ('BL', 'OL') for x in it): ctx.cover('nested-list')
                        if any(x['k'] == 'C' for x in it): ctx.cover('code-in-item')
                        walk(it, inq)
                elif b['k'] == 'Q':
                    walk(b['c'], True)
        walk(tree, False)
        if re.search(r'(^|\n)(> )?7{3,}\.', text): ctx.cover('item-number-needs-3-digits')

    def tv_pick(self, trace):
        return zlib.crc32(repr(trace).encode()) % self.tv_every == self.tv_phase

    def tv_compare(self, tv, native_out):
        exp = tv['post'][1]
        out = native_out[-1] if native_out else None
        if not (isinstance(out, dict) and 'blocks' in out):
            tv['diff'] = out
            return False
        native_reading = canon_tree(out['blocks'])
        if native_reading != exp['reading']:
            tv['diff'] = {'reference_reader': exp['reading'], 'real_reader': native_reading, 'text': out.get('text_tail', '')[-400:]}
            return False
        if exp['text'] is not None and norm_digits(exp['text'][-3000:]) != norm_digits(out.get('text_tail', ''))[-len(exp['text'][-3000:]):]:
            tv['diff'] = {'executor_text': exp['text'][-400:], 'native_text': out.get('text_tail', '')[-400:]}
            return False
        return True

    # ---- violations ------------------------------------------------------------------------------------------------------
    def on_panic(self, ctx, ex, e, res):
        """a reachable panic edge of the writer: formatting does not terminate normally"""
        m = ctx.model()
        for pid in ('C03', 'C12'):
            ctx.violations.append({'law': pid + '.writing-the-blocks-does-not-panic', 'model': m,
                                   'info': {'msg': res['detail'], 'where': res.get('where'), 'input': getattr(ctx, 'input_desc', None)}})

    def finish_violation(self, ctx, v):
        tree = getattr(ctx, 'tree', [])
        v['role'] = role_of(tree, v['info'])
        v['input_tree'] = {'blocks': tree, 'model': {k: x for k, x in (v.get('model') or {}).items() if k.startswith('items_before')}}
        if any(x > 200000 for x in v['input_tree']['model'].values()):
            v['input_tree']['note'] = 'item numbers above 200000: the native replay builds that many items'

    def replay(self, v, driver):
        d = v['input_tree']
        script = native_script(d['blocks'], d['model'])
        res = driver.run(script, timeout=120)
        v['replay_script'], v['replay_result'] = script, res
        last = res[-1]
        if v['law'].endswith('writing-the-blocks-does-not-panic'):
            v['replay_verdict'] = 'native: %s' % str(last)[:200]
            return isinstance(last, dict) and ('panic' in last or 'crash' in last)
        if not (isinstance(last, dict) and 'blocks' in last):
            v['replay_verdict'] = 'native: %s' % str(last)[:200]
            return False
        got = canon_tree(last['blocks'])
        exp = canon_tree(expected(d['blocks']))
        v['replay_verdict'] = 'real writer + real reader: %s' % ('reads back differently' if got != exp else 'reads back the same')
        v['native_reading'] = got
        if v['law'].endswith('keeps-every-block'):
            return leaves(got) != leaves(exp)
        return got != exp


def native_script(tree, model):
    bases = []
    def conv(b):
        b = dict(b)
        if b['k'] == 'Q':
            b['c'] = [conv(x) for x in b['c']]
        elif b['k'] in ('BL', 'OL'):
            if b['k'] == 'OL':
                n = int((model or {}).get(b.get('base'), 0) or 0) if b.get('base') else 0
                b['base'] = n
                bases.append(n)
            b['items'] = [[conv(x) for x in it] for it in b['items']]
        return b
    blocks = [conv(b) for b in tree]
    return [{'op': 'render_reread', 'blocks': blocks, 'bases': bases}]

def expected(tree):
    out = []
    for b in tree:
        k = b['k']
        if k in ('P', 'PL'): out.append({'k': 'P', 't': b['t']})
        elif k == 'H': out.append({'k': 'H', 'lv': b['lv'], 't': b['t']})
        elif k == 'C': out.append({'k': 'C', 't': b['t'], 'lang': b['lang']})
        elif k == 'R': out.append({'k': 'R'})
        elif k == 'Q': out.append({'k': 'Q', 'c': expected(b['c'])})
        else: out.append({'k': k, 'items': [expected(it) for it in b['items']]})
    return out

def canon_tree(bs):
    out = []
    for b in bs:
        k = b['k']
        if k == 'P': out.append(['P', b['t']])
        elif k == 'H': out.append(['H', b['lv'], b['t']])
        elif k == 'C': out.append(['C', (b['t'] or '').strip('\n'), b.get('lang') or None])
        elif k == 'R': out.append(['R'])
        elif k == 'Q': out.append(['Q', canon_tree(b['c'])])
        elif k in ('BL', 'OL'): out.append([k, [canon_tree(it) for it in b['items']]])
        else: out.append(['?', str(b)[:60]])
    return out

def leaves(t):
    out = []
    for b in t:
        if b[0] == 'Q': out += leaves(b[1])
        elif b[0] in ('BL', 'OL'):
            for it in b[1]: out += leaves(it)
        else: out.append(b)
    return out

def norm_digits(s):
    return re.sub(r'\d+\.', lambda m: '7' * (len(m.group(0)) - 1) + '.', s)

def role_of(tree, info):
    return 'general'
