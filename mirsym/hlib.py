"""Harness helpers: build liwe values, dump arenas / trees to neutral Python data."""
import sys, os
sys.path.insert(0, os.path.dirname(os.path.abspath(__file__)))
import z3
import rsrc, engine, natives
from engine import *
from values import *

_PROG = None
def program(mir_files=('/verif/.cache/liwe.mir',), crates=('crates/liwe',), repo='/repo'):
    global _PROG
    if _PROG is None:
        tts = []
        for c in crates:
            tt = rsrc.load_crate(repo, c); tt.roots = [repo]
            tts.append(tt)
        if any(c.endswith('iwes') for c in crates):
            tts.append(external_table('lsp-types-0.95.1', 'lsp_types'))
            tts.append(external_table('lsp-server-0.7.8', 'lsp_server'))
        _PROG = Program(list(mir_files), tts)
        natives.install(_PROG)
    return _PROG

def external_table(crate_dir, modname):
    """struct / enum layouts of a registry crate (field order for aggregates and projections)"""
    import glob
    base = glob.glob(os.path.expanduser('~/.cargo/registry/src/*/' + crate_dir + '/src'))[0]
    tt = rsrc.TypeTable()
    tt.roots = []
    tt.prefix = modname
    for p in sorted(glob.glob(base + '/**/*.rs', recursive=True)):
        try:
            tt.add_file(p, modname)
        except Exception:
            pass
    return tt

class H:
    """value factory bound to a Program"""
    def __init__(self, prog):
        self.p = prog

    def rng(self, a, b):
        return Struct('std::ops::Range', [Cell(a), Cell(b)], ['start', 'end'])
    def key(self, s):
        return self.p.mk_struct('model::Key', relative_path=ArcV(Cell(s)))
    def pos(self, l, c):
        return self.p.mk_struct('model::Position', line=l, character=c)
    def irange(self, a=(0, 0), b=(0, 0)):
        return self.rng(self.pos(*a), self.pos(*b))
    def vec(self, xs):
        return VecV([Cell(x) for x in xs])
    # inlines
    def istr(self, s):
        return self.p.mk_enum('model::document::DocumentInline', 'Str', s)
    def ispace(self):
        return self.p.mk_enum('model::document::DocumentInline', 'Space', self.p.mk_struct('model::document::Space', inline_range=self.irange()))
    def ilink(self, url, text, link_type='Regular', title='', rng=None):
        tgt = self.p.mk_struct('model::document::Target', url=url, title=title)
        attr = self.p.mk_struct('model::document::Attributes', identifier='', classes=VecV(), attributes=VecV(), inline_range=self.irange())
        lt = self.p.mk_enum('model::document::LinkType', link_type)
        l = self.p.mk_struct('model::document::Link', target=tgt, attr=attr, inlines=self.vec([self.istr(text)] if text else []),
                             title=title, inline_range=rng or self.irange(), link_type=lt)
        return self.p.mk_enum('model::document::DocumentInline', 'Link', l)
    def iemph(self, inl):
        e = self.p.mk_struct('model::document::Emph', inlines=self.vec(inl), inline_range=self.irange())
        return self.p.mk_enum('model::document::DocumentInline', 'Emph', e)
    # blocks
    def B(self, variant, sname, **kw):
        return self.p.mk_enum('model::document::DocumentBlock', variant, self.p.mk_struct('model::document::' + sname, **kw))
    def para(self, inl, lr): return self.B('Para', 'Para', line_range=lr, inlines=self.vec(inl))
    def plain(self, inl, lr): return self.B('Plain', 'Plain', line_range=lr, inlines=self.vec(inl))
    def header(self, level, inl, lr): return self.B('Header', 'Header', line_range=lr, level=level, inlines=self.vec(inl))
    def code(self, text, lang, lr): return self.B('CodeBlock', 'CodeBlock', line_range=lr, lang=(SOME(lang) if lang is not None else NONE()), text=text)
    def rule(self, lr): return self.B('HorizontalRule', 'HorizontalRule', line_range=lr)
    def quote(self, blocks, lr): return self.B('BlockQuote', 'BlockQuote', line_range=lr, blocks=self.vec(blocks))
    def bullets(self, items): return self.B('BulletList', 'BulletList', items=self.vec([self.vec(i) for i in items]))
    def ordered(self, items): return self.B('OrderedList', 'OrderedList', items=self.vec([self.vec(i) for i in items]))
    def table(self, header, rows, lr):
        al = self.p.mk_enum('model::node::ColumnAlignment', 'None')
        return self.B('Table', 'Table', line_range=lr, header=self.vec([self.vec(c) for c in header]),
                      rows=self.vec([self.vec([self.vec(c) for c in r]) for r in rows]),
                      alignment=self.vec([clone_val(al) for _ in header]))
    def document(self, blocks, metadata=None):
        return self.p.mk_struct('model::document::Document', blocks=self.vec(blocks), metadata=(SOME(metadata) if metadata else NONE()))

def pyval(v):
    """concrete neutral form: ints / strs / lists / dicts (symbolic leaves stay z3 exprs)"""
    t = type(v)
    if t is Struct:
        if v.names:
            d = {n: pyval(c.v) for n, c in zip(v.names, v.f)}
            d['_t'] = v.ty.split('::')[-1]
            return d
        return {'_t': v.ty.split('::')[-1], '_f': [pyval(c.v) for c in v.f]}
    if t is Enum:
        if v.ty == 'Option':
            return None if v.vi == 0 else pyval(v.f[0].v)
        if len(v.f) == 1:
            return {'_v': v.vn, '_0': pyval(v.f[0].v)}
        return {'_v': v.vn, '_f': [pyval(c.v) for c in v.f]}
    if t is Tup:
        return tuple(pyval(c.v) for c in v.f)
    if t in (VecV, SliceV):
        return [pyval(c.v) for c in v.items]
    if t in (ArcV, BoxV, Ref):
        return pyval(v.cell.v)
    if t is MapV:
        return {k: pyval(c.v) for k, (kv, c) in v.d.items()}
    if t is SetV:
        return sorted(v.d.keys(), key=repr)
    if t is SymStr:
        return v.tok
    return v
