"""H1a / H7 / H20a / H3a: Document blocks -> SectionsBuilder -> arena -> Tree -> Projector (all from MIR).
Symbolic: heading levels (u8 in 1..6); block kinds / shapes by forking within the bounds."""
import z3
from harness import *
import natives, re

LEAFS = ('Para', 'Code', 'Rule', 'Table', 'Ref')
KINDS = ('Para', 'Header', 'Code', 'Rule', 'Quote', 'Bullet', 'Ordered', 'Table', 'Ref', 'EPara')

class Gen:
    """input generator: returns (neutral input tree, liwe DocumentBlocks value)"""
    def __init__(self, hz, ctx, budget, max_nest, kinds=KINDS):
        self.hz, self.ctx, self.h = hz, ctx, hz.h
        self.budget = budget
        self.max_nest = max_nest
        self.kinds = kinds
        self.tok = 0
        self.line = 0
        self.levels = []          # symbolic level per heading token

    def lr(self, n=1):
        r = self.h.rng(self.line, self.line + n)
        self.line += n
        return r

    def seq(self, nest, min_len=0):
        ctx = self.ctx
        out_n, out_v = [], []
        while self.budget > 0:
            if len(out_n) >= min_len:
                if ctx.choose(2) == 1:      # stop
                    break
            n, v = self.block(nest)
            out_n.append(n); out_v.append(v)
        return out_n, out_v

    def block(self, nest):
        ctx, h = self.ctx, self.h
        kinds = [k for k in self.kinds if nest < self.max_nest or k not in ('Quote', 'Bullet', 'Ordered')]
        k = kinds[ctx.choose(len(kinds))]
        self.budget -= 1
        if k in ('Para', 'Header', 'Code', 'Ref', 'Table', 'EPara'):
            t = 'T%d' % self.tok; self.tok += 1
        if k == 'Para':
            return {'k': 'Para', 't': t}, h.para([h.istr(t)], self.lr())
        if k == 'EPara':        # a paragraph whose only inline is an emphasised link (not a block reference)
            return ({'k': 'Para', 't': t, 'inl': [{'k': 'Emph', 'c': [{'k': 'Link', 'url': 'n' + t, 'c': [{'k': 'Str', 't': t}]}]}]},
                    h.para([h.iemph([h.ilink('n' + t, t)])], self.lr()))
        if k == 'Header':
            lv = ctx.sym_bv('lv_%s' % t, 8)
            ctx.assume(z3.And(z3.UGE(lv, 1), z3.ULE(lv, 6)))
            self.levels.append((t, lv))
            return {'k': 'Header', 't': t, 'lv': lv}, h.header(lv, [h.istr(t)], self.lr())
        if k == 'Code':
            return {'k': 'Code', 't': t, 'lang': 'rs'}, h.code(t, 'rs', self.lr(3))
        if k == 'Rule':
            return {'k': 'Rule'}, h.rule(self.lr())
        if k == 'Table':
            return {'k': 'Table', 't': t}, h.table([[h.istr(t + 'h')]], [[[h.istr(t + 'c')]]], self.lr(3))
        if k == 'Ref':
            if self.hz.wiki_refs and ctx.choose(2) == 1:
                # [[nT]]: a wiki link alone in its paragraph; its text is its target
                return {'k': 'Ref', 't': 'n' + t, 'url': 'n' + t, 'lt': 'WikiLink'}, h.para([h.ilink('n' + t, 'n' + t, link_type='WikiLink')], self.lr())
            return {'k': 'Ref', 't': t, 'url': 'n' + t}, h.para([h.ilink('n' + t, t)], self.lr())
        if k == 'Quote':
            lr = self.lr(0)
            cn, cv = self.seq(nest + 1)
            return {'k': 'Quote', 'c': cn}, h.quote(cv, lr)
        # lists
        items_n, items_v = [], []
        while True:
            cn, cv = self.seq(nest + 1)
            items_n.append(cn); items_v.append(cv)
            if not cn:
                self.budget -= 1            # an empty item uses up one unit of the size bound
            if self.budget <= 0 or len(items_n) >= self.hz.max_items or ctx.choose(2) == 1:
                break
        if k == 'Bullet':
            return {'k': 'Bullet', 'items': items_n}, h.bullets(items_v)
        return {'k': 'Ordered', 'items': items_n}, h.ordered(items_v)

# ---------------------------------------------------------------- reference normal form
TEXTLIKE = ('Para', 'Header', 'Ref')

class Unspecified(Exception):
    """input shape for which the property statement fixes no exact placement"""

def norm_seq(blocks):
    out = []
    for b in blocks:
        k = b['k']
        if k in ('Para',):
            out.append(('Para', b['t']))
        elif k == 'Header':
            out.append(('Header', b['t']))
        elif k == 'Code':
            out.append(('Code', b['lang'], b['t']))
        elif k == 'Rule':
            out.append(('Rule',))
        elif k == 'Table':
            out.append(('Table', b['t']))
        elif k == 'Ref':
            out.append(('Ref', b['url'], '' if b.get('lt') == 'WikiLink' else b['t']))       # [[x]] is written from its target alone
        elif k == 'Quote':
            c = norm_seq(b['c'])
            if c:
                out.append(('Quote', tuple(c)))
        else:
            items = norm_items(b['items'])
            if items:
                out.append((k, tuple(items)))
    return out

def tx(b):
    """the text a block contributes: a wiki reference [[x]] is written from its target alone and carries no text of its own"""
    return '' if (b['k'] == 'Ref' and b.get('lt') == 'WikiLink') else b['t']

def norm_items(items):
    out = []
    for it in items:
        if not it:
            continue            # empty items carry nothing
        b0 = it[0]
        if b0['k'] in TEXTLIKE:
            out.append((('Item', tx(b0)),) + tuple(norm_seq(it[1:])))
        elif b0['k'] in ('Bullet', 'Ordered'):
            if len(it) > 1:
                raise Unspecified('item starts with a list and has further blocks')
            out.extend(norm_items(b0['items']))     # merged into the enclosing list
        else:
            raise Unspecified('item starts with ' + b0['k'])
    return out

def inl_text(inl):
    out = []
    for i in inl:
        v = i['_v']
        if v == 'Str':
            out.append(i['_0'])
        elif v == 'Link':
            out.append(inl_text(i['_f'][3]))
        elif '_0' in i and isinstance(i['_0'], list):
            out.append(inl_text(i['_0']))
    return ''.join(out)

def inl_text_neutral(b):
    """plain text of a neutral block (harness side)"""
    if 'inl' not in b:
        return b['t']
    def go(xs):
        s = ''
        for i in xs:
            if i['k'] == 'Str': s += i['t']
            elif 'c' in i: s += go(i['c'])
        return s
    return go(b['inl'])

def out_seq(blocks, levels_out):
    """actual GraphBlocks (neutral) -> same normal form; heading levels collected in levels_out (pre-order)"""
    out = []
    for b in blocks:
        v = b['_v']
        if v in ('Para', 'Plain'):
            inl = b['_0']
            if len(inl) == 1 and inl[0]['_v'] == 'Link' and v == 'Para' and inl[0].get('_ref'):
                pass
            if len(inl) == 1 and inl[0]['_v'] == 'Link':
                l = inl[0]['_f']
                out.append(('Ref', l[0], inl_text(l[3])))
            else:
                out.append(('Para', inl_text(inl)))
        elif v == 'Header':
            levels_out.append((inl_text(b['_f'][1]), b['_f'][0]))
            out.append(('Header', inl_text(b['_f'][1])))
        elif v == 'CodeBlock':
            out.append(('Code', b['_f'][0], b['_f'][1]))
        elif v == 'HorizontalRule':
            out.append(('Rule',))
        elif v == 'Table':
            hdr, al, rows = b['_f']
            t = inl_text(hdr[0])[:-1] if hdr and hdr[0] else None
            ok = hdr and inl_text(hdr[0]) == t + 'h' and len(rows) == 1 and len(rows[0]) == 1 and inl_text(rows[0][0]) == t + 'c' and len(hdr) == 1
            out.append(('Table', t if ok else ('BROKEN', str(b))))
        elif v == 'BlockQuote':
            sub = []
            inner = out_seq(b['_0'], sub)
            if not inner:
                continue            # quote without content renders nothing
            out.append(('Quote', tuple(inner)))
            levels_out.append(('<quote>', sub))
        elif v in ('BulletList', 'OrderedList'):
            if not b['_0']:
                continue            # list without items renders nothing
            items = []
            for it in b['_0']:
                first = it[0]
                assert first['_v'] in ('Para', 'Plain'), first
                sub = []
                items.append((('Item', inl_text(first['_0'])),) + tuple(out_seq(it[1:], sub)))
                levels_out.append(('<item>', sub))
            out.append(('Bullet' if v == 'BulletList' else 'Ordered', tuple(items)))
        else:
            out.append(('?', v))
    return out

def in_levels(blocks, acc):
    """input heading levels grouped like levels_out: a flat list per container, nested containers as sub-lists"""
    for b in blocks:
        k = b['k']
        if k == 'Header':
            acc.append((b['t'], b['lv']))
        elif k == 'Quote':
            sub = []
            in_levels(b['c'], sub)
            if norm_seq(b['c']):
                acc.append(('<quote>', sub))
        elif k in ('Bullet', 'Ordered'):
            in_levels_items(b['items'], acc)
    return acc

def in_levels_items(items, acc):
    for it in items:
        if not it:
            continue
        if it[0]['k'] in ('Bullet', 'Ordered'):
            in_levels_items(it[0]['items'], acc)
            continue
        sub = []
        in_levels(it[1:], sub)      # a heading that is the first block of an item is the item's text
        acc.append(('<item>', sub))

def _sym(*xs):
    return any(isinstance(x, z3.ExprRef) for x in xs)

def AND(cs):
    cs = list(cs)
    if any(c is False for c in cs):
        return False
    cs = [c for c in cs if c is not True]
    if not cs:
        return True
    return z3.And(*cs) if len(cs) > 1 else cs[0]

def IMPLIES(a, b):
    if a is False or b is True:
        return True
    if a is True:
        return b
    if b is False:
        return z3.Not(a)
    return z3.Implies(a, b)

def ULE(a, b):
    return z3.ULE(a, b) if _sym(a, b) else a <= b

def EQ(a, b):
    return a == b

def well_nested(levels):
    """formula / bool: flat list of levels starts at 1 and never skips"""
    if not levels:
        return True
    return AND([EQ(levels[0], 1)] + [ULE(b, a + 1) for a, b in zip(levels, levels[1:])])

# ---------------------------------------------------------------- arena invariant (C20)

LEAFLIKE = ('Leaf', 'Raw', 'HorizontalRule', 'Reference', 'Table')

def check_ri(nodes, keys):
    """representation invariant of the arena; returns list of problems"""
    bad = []
    n = len(nodes)
    referenced = {}
    for nd in nodes:
        if nd['kind'] == 'Empty':
            continue
        i = nd['id']
        if nodes[i] is not nd:
            bad.append('node %d stored at wrong index' % i)
        for link in ('next', 'child'):
            t = nd.get(link)
            if t is None:
                continue
            if not (0 <= t < n):
                bad.append('%s of %d out of range: %r' % (link, i, t)); continue
            if nodes[t]['kind'] == 'Empty':
                bad.append('%s of %d points to tombstone %d' % (link, i, t)); continue
            if t <= i:
                bad.append('%s of %d points backwards to %d' % (link, i, t))
            if t in referenced:
                bad.append('node %d referenced twice (%r and %s of %d)' % (t, referenced[t], link, i))
            referenced[t] = (link, i)
            if nodes[t].get('prev') != i:
                bad.append('prev of %d is %r, expected %d (%s)' % (t, nodes[t].get('prev'), i, link))
        if nd['kind'] in LEAFLIKE and nd.get('child') is not None:
            bad.append('leaf-like node %d has a child' % i)
        if nd['kind'] == 'Document':
            if nd.get('next') is not None:
                bad.append('document %d has next' % i)
        else:
            if i not in referenced and not any(nodes[j].get(l) == i for j in range(i) for l in ('next', 'child') if nodes[j]['kind'] != 'Empty'):
                bad.append('live non-root node %d is unreachable' % i)
    roots = [nd['id'] for nd in nodes if nd['kind'] == 'Document']
    kvals = sorted(keys.values())
    for k, rid in keys.items():
        if not (0 <= rid < n) or nodes[rid]['kind'] != 'Document':
            bad.append('key %r maps to non-document %r' % (k, rid))
        elif nodes[rid]['key']['relative_path'] != k:
            bad.append('key %r maps to document of %r' % (k, nodes[rid]['key']))
    for r in roots:
        if r not in kvals:
            bad.append('live document root %d not in keys' % r)
    return bad

def strip_tree_ids(t):
    return {'node': t['node'], 'children': [strip_tree_ids(c) for c in t['children']]}

def tree_shape(t):
    """Tree (neutral) -> nested tuples (kind, token?, children)"""
    nd = t['node']
    v = nd['_v']
    tok = None
    if v in ('Section', 'Leaf'):
        tok = inl_text(nd['_0'])
    elif v == 'Raw':
        tok = nd['_f'][1]
    elif v == 'Reference':
        tok = nd['_0']['text']
    elif v == 'Table':
        tok = inl_text(nd['_0']['header'][0]) if nd['_0']['header'] else None
    return (v, tok, tuple(tree_shape(c) for c in t['children']))

def tree_parent_law(tshape, expect_prev_heading):
    """every non-section block sits under the nearest preceding heading of its container"""
    bad = []
    def walk(node, owner):
        v, tok, ch = node
        if v == 'Section':
            for c in ch:
                walk(c, tok)
        elif v in ('Quote',):
            for c in ch:
                walk(c, None)
        elif v in ('BulletList', 'OrderedList'):
            for c in ch:       # items are sections
                walk(c, None)
        elif v == 'Document':
            for c in ch:
                walk(c, None)
        else:
            key = (v, tok)
            if key in expect_prev_heading and expect_prev_heading[key] != owner:
                bad.append('%r is under %r, expected %r' % (key, owner, expect_prev_heading[key]))
    walk(tshape, None)
    return bad

def expected_owners(blocks, owners, item_text=None):
    """nearest preceding heading (token) in the same container, per token-carrying non-heading block"""
    cur = item_text
    for b in blocks:
        k = b['k']
        if k == 'Header':
            cur = b['t']
        elif k == 'Para':
            owners[('Leaf', b['t'])] = cur
        elif k == 'Code':
            owners[('Raw', b['t'])] = cur
        elif k == 'Ref':
            if tx(b): owners[('Reference', tx(b))] = cur         # wiki references carry no text to tell them apart: not tracked
        elif k == 'Table':
            owners[('Table', b['t'] + 'h')] = cur
        elif k == 'Quote':
            expected_owners(b['c'], owners, None)
        elif k in ('Bullet', 'Ordered'):
            for it in b['items']:
                if it and it[0]['k'] in TEXTLIKE:
                    expected_owners(it[1:], owners, tx(it[0]))
                elif it and it[0]['k'] in ('Bullet', 'Ordered') and len(it) == 1:
                    expected_owners(it[:1], owners, None)
    return owners

class DocHarness(Harness):
    name = 'doc_pipeline'
    real_functions = ('SectionsBuilder::new/process_blocks/process_section/section_block/block/set_lines_range', 'ranges',
                      'first_header', 'first_header_level', 'to_graph_inlines', 'DocumentInline::to_graph_inline',
                      'Graph::new/build_key/add_line/add_graph_node', 'GraphBuilder::*', 'Arena::*', 'GraphNode::*',
                      'GraphContext::collect', 'NodePointer::collect_tree', 'Tree::from_pointer', 'GraphNodePointer::*',
                      'Tree::iter', 'TreeIter::*', 'Projector::project/project_node/project_list_item', 'NodeIter defaults',
                      'Key::parent/from_rel_link_url/to_rel_link_url')
    tv_every = 97
    tv_phase = 0
    required_covers = ('heading', 'nested-heading', 'list', 'quote', 'wellnested-input', 'non-wellnested-input', 'merged-item')

    def __init__(self, prog, tier='quick', budget=None, max_nest=None, kinds=KINDS, name=None, covers=None):
        Harness.__init__(self, prog, tier)
        if name: self.name = name
        if covers is not None: self.required_covers = covers
        self.budget = budget or (4 if tier == 'quick' else 5)
        self.max_nest = max_nest or 2
        self.max_items = 3
        self.kinds = kinds
        self.second_pass = False
        self.wiki_refs = False
        self.bounds = {'blocks_per_note': self.budget, 'nesting': self.max_nest, 'kinds': list(kinds), 'heading_level': '1..6 (symbolic u8)'}

    def build(self, ctx, ex, key, blocks_v):
        h = self.h
        g = ex.call('Graph::new', [])
        gref = Ref(Cell(g))
        kcell = Cell(key)
        b = ex.call('Graph::build_key', [gref, Ref(kcell)])
        ex.call("SectionsBuilder::<'_>::new", [Ref(Cell(b)), Ref(Cell(blocks_v)), Ref(kcell)])
        return g, gref

    def run(self, ctx, ex):
        h = self.h
        gen = Gen(self, ctx, self.budget, self.max_nest, self.kinds)
        in_n, in_v = gen.seq(0)
        ctx.input_desc = describe(in_n)
        ctx.input_tree = in_n
        key = h.key('d/a')
        g, gref = self.build(ctx, ex, key, h.vec(in_v))
        nodes = arena_std(g)
        keys = {k[1]: c.v for k, (kv, c) in g.get('keys').d.items()}
        tree = ex.call('<&Graph as GraphContext>::collect', [Ref(Cell(gref)), Ref(Cell(key))])
        it = ex.call('Tree::iter', [Ref(Cell(tree))])
        blocks = ex.call("Projector::project::<TreeIter<'_>>", [it, Ref(Cell('d'))])
        out = {'arena': nodes, 'keys': keys, 'tree': std_json(pyval(tree)), 'project': std_json(pyval(blocks))}
        sample = self.judge(in_n, out, ctx.law, ctx)
        # ---- copy path (patch graphs of formatting / code actions / CLI): tree -> builder -> tree must be the identity
        patch = ex.call('Graph::new', [])
        pref = Ref(Cell(patch))
        it2 = ex.call("TreeIter::<'_>::new", [Ref(Cell(tree))])
        ex.call("Graph::build_key_from_iter::<TreeIter<'_>>", [pref, Ref(Cell(key)), it2])
        rebuilt = ex.call('<&Graph as GraphContext>::collect', [Ref(Cell(pref)), Ref(Cell(key))])
        a, b = strip_tree_ids(out['tree']), strip_tree_ids(std_json(pyval(rebuilt)))
        ctx.law('C01.copy-through-builder-keeps-every-block', a == b, {'input': ctx.input_desc, 'tree': a, 'rebuilt': b})
        ctx.law('C07.copy-through-builder-keeps-the-outline', a == b, {'input': ctx.input_desc, 'tree': a, 'rebuilt': b})
        pn = arena_std(patch)
        pk = {k[1]: c.v for k, (kv, c) in patch.get('keys').d.items()}
        bad = check_ri(pn, pk)
        ctx.law('C20.RI-established-by-patch-graph', not bad, {'input': ctx.input_desc, 'problems': bad[:5]})
        # ---- second format: what the writer emits is read back (writer harness: as the same blocks) and formatted again
        if self.second_pass:
            try:
                line = [0]
                again_v = graph_to_doc_vals(h, blocks, line)
            except Unsupported:
                again_v = None
            if again_v is not None:
                g2, gref2 = self.build(ctx, ex, key, h.vec(again_v))
                tree2 = ex.call('<&Graph as GraphContext>::collect', [Ref(Cell(gref2)), Ref(Cell(key))])
                it3 = ex.call('Tree::iter', [Ref(Cell(tree2))])
                blocks2 = ex.call("Projector::project::<TreeIter<'_>>", [it3, Ref(Cell('d'))])
                lv1, lv2 = [], []
                a1 = out_seq(out['project'], lv1)
                a2 = out_seq(std_json(pyval(blocks2)), lv2)
                f1, f2 = flat_levels(lv1), flat_levels(lv2)
                same = a1 == a2 and [t for t, v in f1] == [t for t, v in f2] and AND([EQ(x, y) for (t, x), (t2, y) in zip(f1, f2)])
                ctx.law('C02.second-format-changes-nothing', same, {'input': ctx.input_desc, 'first': a1, 'second': a2, 'levels_first': repr(f1)[:200], 'levels_second': repr(f2)[:200]})
                ctx.cover('formatted-twice')
            self.text_fixpoint(ctx, ex, blocks, out, key)
        if any(b['k'] in ('Bullet', 'Ordered') for b in in_n): ctx.cover('list')
        if any(b['k'] == 'Quote' and b['c'] for b in in_n): ctx.cover('quote')
        if gen.levels: ctx.cover('heading')
        if any(b['k'] in ('Bullet', 'Ordered') and any(it and it[0]['k'] in ('Bullet', 'Ordered') for it in b['items']) for b in in_n):
            ctx.cover('merged-item')
        if self.tv_pick(ctx.trace):
            ext = getattr(ctx, 'c02_ext', '')
            ctx.tv = {'script': ([{'op': 'new_graph', 'refs_extension': ext}] if ext else []) + self.script(in_n, ctx.model()) + [dict({'op': 'format_twice', 'key': 'd/a'}, **({'refs_extension': ext} if ext else {}))], 'expect': ([None] if ext else []) + [None, out['arena'], out['tree'], out['project'], None],
                      'post': ['doc', bool([v for v in ctx.violations if not v['law'].startswith('C02.formatting')]), getattr(ctx, 'c02_text_same', None) if self.second_pass else 'off']}
        if getattr(ctx, 'c02_sample', None):
            sample = dict(sample, **ctx.c02_sample)
        return sample

    def text_fixpoint(self, ctx, ex, blocks, out, key):
        """format, read the text back, format again - the writer, builder and projector are the real ones (MIR), the reader is
        the reference reader (mdref, validated against the real reader); the two texts must be equal"""
        import mdref
        h, prog = self.h, self.prog
        tables = {}
        def table_stub(ex_, c_, a_, dt_):
            # the cmark table writer is outside: a table's text is one opaque line naming it
            tb = natives.deref(a_[1]).items[0].v
            cell = tb.f[0].v.items[0].v if tb.f[0].v.items else None
            name = 'TABLE' + (cell.items[0].v.f[0].v if cell is not None and cell.items and cell.items[0].v.vn == 'Str' else str(len(tables)))
            tables[name] = tb
            return name
        saved = dict(prog.overrides)
        prog.overrides[re.compile(r'MarkdownWriter::write$')] = table_stub
        if has_table(out['project']): ctx.cover('table-as-opaque-leaf')
        ext = ('', '.md')[ctx.choose(2)] if has_link(out['project']) else ''
        if ext: ctx.cover('refs-extension')
        ctx.c02_ext = ext
        ctx.sym_repeat = []
        opts = prog.mk_struct_lenient('model::config::MarkdownOptions', refs_extension=ext)
        text1 = natives.as_str(ex.call('model::graph::blocks_to_markdown_sparce', [Ref(Cell(blocks)), Ref(Cell(opts))]))
        levels = list(ctx.sym_repeat)
        tree1 = mdref.neutral(mdref.parse(text1))
        line = [0]
        def lr(n=1):
            r = h.rng(line[0], line[0] + n); line[0] += n + 1
            return r
        def inl(t):
            def conv(xs):
                o = []
                for x in xs:
                    if x[0] == 'str':
                        parts = x[1].split(' ')
                        for i, w in enumerate(parts):
                            if i: o.append(h.ispace())
                            if w: o.append(h.istr(w))
                    elif x[0] == 'emph': o.append(h.iemph(conv(x[1])))
                    else: o.append(h.ilink(x[1], x[2], link_type=x[3] if len(x) > 3 else 'Regular'))
                return o
            return conv(mdref.inlines(t))
        def vals(bs):
            o = []
            for b in bs:
                k = b['k']
                if k == 'P': o.append(h.para(inl(b['t']), lr()))
                elif k == 'H':
                    lv = b['lv']
                    o.append(h.header(levels[lv[1]] if isinstance(lv, tuple) else lv, inl(b['t']), lr()))
                elif k == 'C': o.append(h.code(b['t'].rstrip('\n'), b.get('lang'), lr(3)))
                elif k == 'R': o.append(h.rule(lr()))
                elif k == 'T':
                    o += graph_to_doc_vals(h, VecV([Cell(tables[b['t']])]), line)
                elif k == 'Q':
                    r = lr(0); o.append(h.quote(vals(b['c']), r))
                else:
                    items = [vals(it) for it in b['items']]
                    o.append(h.bullets(items) if k == 'BL' else h.ordered(items))
            return o
        try:
            again = vals(tree1)
        except (Unsupported, KeyError):
            ctx.cover('inline-outside-the-text-claim')
            prog.overrides = saved
            return
        n_v = len(ctx.violations)
        g2, gref2 = self.build(ctx, ex, key, h.vec(again))
        tree2 = ex.call('<&Graph as GraphContext>::collect', [Ref(Cell(gref2)), Ref(Cell(key))])
        it3 = ex.call('Tree::iter', [Ref(Cell(tree2))])
        blocks2 = ex.call("Projector::project::<TreeIter<'_>>", [it3, Ref(Cell('d'))])
        ctx.sym_repeat = []
        text2 = natives.as_str(ex.call('model::graph::blocks_to_markdown_sparce', [Ref(Cell(blocks2)), Ref(Cell(opts))]))
        levels2 = list(ctx.sym_repeat)
        ctx.sym_repeat = None
        prog.overrides = saved
        # equal texts: same characters, and the symbolic heading depths pairwise equal
        m1 = [ord(ch) - 0xE000 for ch in text1 if 0xE000 <= ord(ch) <= 0xE0FF]
        m2 = [ord(ch) - 0xE000 for ch in text2 if 0xE000 <= ord(ch) <= 0xE0FF]
        plain = lambda t: ''.join('\ue000' if 0xE000 <= ord(ch) <= 0xE0FF else ch for ch in t)
        same = plain(text1) == plain(text2) and len(m1) == len(m2) and AND([EQ(levels[a], levels2[b]) for a, b in zip(m1, m2)])
        why = not_writable(out['project'])
        ctx.c02_why = why
        ctx.c02_text_same = ctx.law('C02.formatting-the-formatted-text-changes-nothing', same, {'input': ctx.input_desc, 'first': plain(text1).replace('\ue000', '#'), 'second': plain(text2).replace('\ue000', '#'), 'why': why})
        ctx.cover('text-formatted-twice')
        ctx.c02_sample = {'refs_extension': ext, 'first_format': plain(text1).replace('\ue000', '#')[:200], 'second_format': plain(text2).replace('\ue000', '#')[:200]}

    def tv_pick(self, trace):
        import zlib
        return zlib.crc32(repr(trace).encode()) % self.tv_every == self.tv_phase

    def tv_compare(self, tv, native_out):
        exp = tv['expect']
        if len(exp) != len(native_out) or not all(e is None or e == a for e, a in zip(exp, native_out)):
            tv['diff'] = 'arena / tree / projection differ'
            return False
        ft = native_out[-1]
        if isinstance(ft, list) and len(ft) == 2 and tv['post'][2] != 'off':
            native_same = ft[0] == ft[1]
            if tv['post'][2] is not None and tv['post'][2] != native_same:
                # the executor's two formats (reference reader in between) and the real two formats disagree
                tv['diff'] = {'executor_says_text_stable': tv['post'][2], 'native_format_twice': ft}
                return False
            if tv['post'][2] is None and not tv['post'][1] and not native_same:
                # outside the executor's text claim (tables, symbolic depth): the real text layer on a path where every law held
                tv['diff'] = {'format_twice': ft}
                tv['c02_native'] = True
                return False
        return True

    def script(self, in_n, model):
        return [{'op': 'doc', 'key': 'd/a', 'blocks': concretize_tree(in_n, model)}, {'op': 'arena'}, {'op': 'collect', 'key': 'd/a'},
                {'op': 'project', 'key': 'd/a'}]

    def judge(self, in_n, out, law, ctx=None):
        """the laws, over neutral data: used on symbolic paths (law = ctx.law) and on native replays (concrete)"""
        desc = describe(in_n)
        bad = check_ri(out['arena'], out['keys'])
        law('C20.RI-established', not bad, {'problems': bad[:5], 'input': desc})
        lv_out = []
        actual = out_seq(out['project'], lv_out)
        try:
            expected = norm_seq(in_n)
            unspecified = None
        except Unspecified as e:
            expected, unspecified = None, str(e)
        if expected is not None:
            law('C01.blocks-conserved-in-place', actual == expected, {'expected': expected, 'actual': actual, 'input': desc})
            owners = expected_owners(in_n, {})
            tb = tree_parent_law(tree_shape(out['tree']), owners)
            law('C07.block-under-same-heading', not tb, {'problems': tb[:5], 'input': desc})
            lv_in = in_levels(in_n, [])
            self.level_laws(law, ctx, lv_in, lv_out, desc)
        else:
            ta, te = sorted(tokens_of(actual)), sorted(tokens_in(in_n))
            law('C01.tokens-conserved', ta == te, {'expected': te, 'actual': ta, 'input': desc, 'why': unspecified})
            if ctx: ctx.cover('unspecified-placement')
        if ctx and any(v == 2 for t, v in flat_levels(lv_out)): ctx.cover('nested-heading')
        return {'input': desc, 'output': repr(actual)[:400], 'levels_out': repr(lv_out)[:200], 'arena_nodes': len(out['arena'])}

    def level_laws(self, law, ctx, lv_in, lv_out, desc):
        """per container: emitted levels are well nested; well-nested input => identical levels"""
        fin = [(t, v) for t, v in lv_in if not t.startswith('<')]
        fout = [(t, v) for t, v in lv_out if not t.startswith('<')]
        info = {'in': [t for t, v in fin], 'out': fout, 'input': desc}
        if not law('C07.headings-in-order', [t for t, v in fin] == [t for t, v in fout], info):
            return
        outs = [v for t, v in fout]
        wn_out = (not outs) or (outs[0] == 1 and all(b <= a + 1 for a, b in zip(outs, outs[1:])))
        law('C07.emitted-outline-well-nested', wn_out, info)
        if fin:
            wn_in = well_nested([v for t, v in fin])
            same = AND([EQ(v, o) for (t, v), o in zip(fin, outs)])
            law('C07.well-nested-input-keeps-levels', IMPLIES(wn_in, same), info)
            if ctx and len(fin) >= 2 and _sym(wn_in):
                if ctx.check(wn_in): ctx.cover('wellnested-input')
                if ctx.check(z3.Not(wn_in)): ctx.cover('non-wellnested-input')
        subs_in = [v for t, v in lv_in if t.startswith('<')]
        subs_out = [v for t, v in lv_out if t.startswith('<')]
        if law('C07.containers-match', len(subs_in) == len(subs_out), info):
            for a, b in zip(subs_in, subs_out):
                self.level_laws(law, ctx, a, b, desc)

    def on_panic(self, ctx, ex, e, res):
        ctx.violations.append({'law': 'C03.no-panic', 'model': ctx.model(),
                               'info': {'msg': res['detail'], 'where': res.get('where'), 'input': getattr(ctx, 'input_desc', None)}})

    def finish_violation(self, ctx, v):
        """attach what replay needs (called for every violation of a path)"""
        tree = getattr(ctx, 'input_tree', None)
        v['ext'] = getattr(ctx, 'c02_ext', '')
        if tree is not None:
            v['input_tree'] = concretize_tree(tree, v.get('model') or {})
            v['role'] = self.role_of(v, tree)

    def role_of(self, v, tree):
        if v['law'] == 'C03.no-panic' and 'section block panic' in (v['info'].get('msg') or ''):
            return 'list-item-first-block=' + first_bad_item_kind(tree)
        if v['law'] in ('C02.formatting-the-formatted-text-changes-nothing', 'C02.second-format-changes-nothing'):
            if v['info'].get('why'): return v['info']['why']
            if has_empty_container(tree): return 'empty-container'
            if has_list_first_item_with_more(tree): return 'item-starts-with-list-and-has-further-blocks'
            return 'general'
        if has_list_first_item_with_more(tree):
            return 'item-starts-with-list-and-has-further-blocks'
        return 'general'

    def replay(self, v, driver):
        """re-run the counterexample natively; True if the real build violates the same law"""
        script = [{'op': 'doc', 'key': 'd/a', 'blocks': v['input_tree']}, {'op': 'arena'}, {'op': 'keys'}, {'op': 'collect', 'key': 'd/a'},
                  {'op': 'project', 'key': 'd/a'}, {'op': 'copy_collect', 'key': 'd/a'}]
        res = driver.run(script)
        v['replay_script'] = script
        v['replay_result'] = res
        if any(isinstance(x, dict) and 'panic' in x for x in res):
            res = [x for x in res if not (isinstance(x, dict) and 'panic' in x)] + [x for x in res if isinstance(x, dict) and 'panic' in x]
        if isinstance(res[-1], dict) and 'panic' in res[-1]:
            v['replay_verdict'] = 'native panic: ' + res[-1]['panic'][:100]
            return v['law'] == 'C03.no-panic'
        if v['law'] == 'C03.no-panic':
            v['replay_verdict'] = 'no native panic'
            return False
        out = {'arena': res[1], 'keys': res[2], 'tree': res[3], 'project': res[4]}
        if v['law'] in ('C02.second-format-changes-nothing', 'C02.formatting-the-formatted-text-changes-nothing'):
            ext = v.get('ext') or ''
            s2 = [{'op': 'new_graph', 'refs_extension': ext}, {'op': 'doc', 'key': 'd/a', 'blocks': v['input_tree']}, {'op': 'format_twice', 'key': 'd/a', 'refs_extension': ext}]
            r2 = driver.run(s2)
            ft = r2[-1]
            if not (isinstance(ft, list) and len(ft) == 2):
                v['replay_verdict'] = 'native format failed: %s' % str(ft)[:100]; return False
            t1, t2 = ft
            v['replay_script'] = s2
            v['replay_result'] = [t1, t2]
            v['replay_verdict'] = 'real format twice: %s' % ('second text DIFFERS' if t1 != t2 else 'same text')
            return t1 != t2
        if v['law'] in ('C01.copy-through-builder-keeps-every-block', 'C07.copy-through-builder-keeps-the-outline', 'C20.RI-established-by-patch-graph'):
            same = strip_tree_ids(res[3]) == strip_tree_ids(res[5]['tree'])
            bad = check_ri(res[5]['arena'], res[5]['keys'])
            v['replay_verdict'] = 'native copy: tree %s, patch arena problems %s' % ('equal' if same else 'DIFFERS', bad[:2])
            return (not same) if not v['law'].startswith('C20') else bool(bad)
        failed = []
        def law(name, ok, info=None):
            if ok is not True:
                failed.append(name)
            return ok is True
        self.judge(v['input_tree'], out, law, None)
        v['replay_verdict'] = 'native laws violated: %s' % failed
        return v['law'] in failed


def not_writable(blocks):
    """projected GraphBlocks (neutral JSON) the Markdown writer has no stable text for; None if there is none"""
    prev = None
    for b in blocks:
        v = b['_v']
        if v == 'BlockQuote':
            if not b['_0']: return 'empty-container'
            w = not_writable(b['_0'])
            if w: return w
        elif v in ('BulletList', 'OrderedList'):
            if not b['_0'] or any(not it for it in b['_0']): return 'empty-container'
            if prev == v: return 'adjacent-lists-of-one-kind'
            for it in b['_0']:
                w = not_writable(it)
                if w: return w
        prev = v
    return None

def tables_as_leaves(prog, bs):
    out = []
    for c in bs.items:
        b = c.v
        if b.vn == 'Table':
            cell = b.f[0].v.items[0].v if b.f[0].v.items else None
            name = 'TABLE'
            if cell is not None and cell.items and cell.items[0].v.vn == 'Str':
                name = 'TABLE' + cell.items[0].v.f[0].v
            out.append(prog.mk_enum('model::graph::GraphBlock', 'CodeBlock', NONE(), name))
        elif b.vn == 'BlockQuote':
            out.append(prog.mk_enum('model::graph::GraphBlock', 'BlockQuote', tables_as_leaves(prog, b.f[0].v)))
        elif b.vn in ('BulletList', 'OrderedList'):
            out.append(prog.mk_enum('model::graph::GraphBlock', b.vn, VecV([Cell(tables_as_leaves(prog, it.v)) for it in b.f[0].v.items])))
        else:
            out.append(b)
    return VecV([Cell(x) for x in out])

def has_empty_container(bs):
    for b in bs:
        if b['k'] == 'Quote' and (not b['c'] or has_empty_container(b['c'])): return True
        if b['k'] in ('Bullet', 'Ordered'):
            if not b['items'] or any((not it) or has_empty_container(it) for it in b['items']): return True
    return False

def has_link(blocks):
    return '"Link"' in __import__('json').dumps(blocks, default=str)

def has_table(blocks):
    for b in blocks:
        v = b['_v']
        if v == 'Table': return True
        if v == 'BlockQuote' and has_table(b['_0']): return True
        if v in ('BulletList', 'OrderedList') and any(has_table(it) for it in b['_0']): return True
    return False

def graph_inlines_to_doc(h, xs):
    out = []
    for c in xs.items:
        i = c.v
        if i.vn == 'Str': out.append(h.istr(i.f[0].v))
        elif i.vn == 'Space': out.append(h.ispace())
        elif i.vn == 'Emph': out.append(h.iemph(graph_inlines_to_doc(h, i.f[0].v)))
        elif i.vn == 'Link':
            kids = i.f[3].v.items
            if len(kids) != 1 or kids[0].v.vn != 'Str' or i.f[2].v.vn != 'Regular':
                raise Unsupported('second pass: link shape')
            out.append(h.ilink(i.f[0].v, kids[0].v.f[0].v))
        else:
            raise Unsupported('second pass: inline ' + i.vn)
    return out

def graph_to_doc_vals(h, bs, line):
    """GraphBlocks (values, symbolic leaves kept) -> the Document blocks the reader yields for their text (writer harness:
    the text reads back as the same blocks); line ranges are fresh"""
    def lr(n=1):
        r = h.rng(line[0], line[0] + n); line[0] += n + 1
        return r
    def inl(xs):
        out = []
        for c in xs.items:
            i = c.v
            if i.vn == 'Str': out.append(h.istr(i.f[0].v))
            elif i.vn == 'Space': out.append(h.ispace())
            elif i.vn == 'Emph': out.append(h.iemph(inl(i.f[0].v)))
            elif i.vn == 'Link':
                kids = i.f[3].v.items
                if len(kids) != 1 or kids[0].v.vn != 'Str' or i.f[2].v.vn != 'Regular':
                    raise Unsupported('second pass: link shape')
                out.append(h.ilink(i.f[0].v, kids[0].v.f[0].v))
            else:
                raise Unsupported('second pass: inline ' + i.vn)
        return out
    out = []
    for c in bs.items:
        b = c.v
        vn = b.vn
        if vn in ('Para', 'Plain'): out.append(h.para(inl(b.f[0].v), lr()))
        elif vn == 'Header': out.append(h.header(b.f[0].v, inl(b.f[1].v), lr()))
        elif vn == 'CodeBlock':
            lang = b.f[0].v
            out.append(h.code(b.f[1].v, lang.f[0].v if lang.vi == 1 else None, lr(3)))
        elif vn == 'HorizontalRule': out.append(h.rule(lr()))
        elif vn == 'BlockQuote':
            r = lr(0)
            out.append(h.quote(graph_to_doc_vals(h, b.f[0].v, line), r))
        elif vn in ('BulletList', 'OrderedList'):
            items = [graph_to_doc_vals(h, it.v, line) for it in b.f[0].v.items]
            out.append(h.bullets(items) if vn == 'BulletList' else h.ordered(items))
        elif vn == 'Table':
            header = [inl(cell.v) for cell in b.f[0].v.items]
            rows = [[inl(cell.v) for cell in row.v.items] for row in b.f[2].v.items]
            out.append(h.table(header, rows, lr(3)))
        else:
            raise Unsupported('second pass: block ' + vn)
    return out

def concretize_tree(blocks, model):
    out = []
    for b in blocks:
        d = {k: v for k, v in b.items() if k not in ('c', 'items', 'lv')}
        if 'lv' in b:
            lv = b['lv']
            d['lv'] = lv if isinstance(lv, int) else int(model.get(str(lv), 1))
        if 'lr' in b:
            d['lr'] = list(b['lr'])
        if 'c' in b:
            d['c'] = concretize_tree(b['c'], model)
        if 'items' in b:
            d['items'] = [concretize_tree(it, model) for it in b['items']]
        out.append(d)
    return out

def std_json(x):
    """pyval output -> the JSON shape the native driver prints"""
    if isinstance(x, dict):
        return {k: std_json(v) for k, v in x.items() if k not in ('_t', 'alignment')} if x.get('_v') != 'Table' or '_f' not in x \
            else {'_v': 'Table', '_f': [std_json(x['_f'][0]), [], std_json(x['_f'][2])]}
    if isinstance(x, (list, tuple)):
        return [std_json(v) for v in x]
    return x

def arena_std(g):
    ar = g.get('arena')
    lines = ar.get('lines').items
    out = []
    for i, c in enumerate(ar.get('nodes').items):
        n = c.v
        if n.vn == 'Empty':
            out.append({'kind': 'Empty', 'id': i}); continue
        s = n.f[0].v
        d = {'kind': n.vn, 'id': s.get('id'), 'prev': None, 'next': None, 'child': None, 'line': None}
        for fld in ('prev', 'next', 'child', 'line'):
            if fld in s.names:
                d[fld] = pyval(s.get(fld))
        if 'key' in s.names:
            d['key'] = {'relative_path': pyval(s.get('key'))['relative_path']}
        if d['line'] is not None:
            d['text'] = line_text(lines[d['line']].v)
        if n.vn == 'Raw':
            d['content'] = s.get('content')
        if n.vn == 'Reference':
            d['ref_text'] = s.get('text')
        out.append(d)
    return out

def line_text(line):
    return inl_text(pyval(line.get('inlines')))

def flat_levels(lv):
    for t, v in lv:
        if t.startswith('<'):
            yield from flat_levels(v)
        else:
            yield t, v

def tokens_of(seq):
    for x in seq:
        if x[0] in ('Para', 'Header', 'Table'):
            yield x[1]
        elif x[0] == 'Code':
            yield x[2]
        elif x[0] == 'Ref':
            yield x[2]
        elif x[0] == 'Quote':
            yield from tokens_of(x[1])
        elif x[0] in ('Bullet', 'Ordered'):
            for it in x[1]:
                yield it[0][1]
                yield from tokens_of(it[1:])

def tokens_in(blocks):
    for b in blocks:
        if 't' in b:
            yield b['t']
        if b['k'] == 'Quote':
            yield from tokens_in(b['c'])
        elif b['k'] in ('Bullet', 'Ordered'):
            for it in b['items']:
                yield from tokens_in(it)

def describe(blocks):
    out = []
    for b in blocks:
        k = b['k']
        if k == 'Quote':
            out.append('Quote[%s]' % describe(b['c']))
        elif k in ('Bullet', 'Ordered'):
            out.append('%s[%s]' % (k, ' | '.join(describe(it) for it in b['items'])))
        elif k == 'Header':
            out.append('H(%s)' % b['t'])
        else:
            out.append('%s(%s)' % (k, b.get('t', '')))
    return ', '.join(out)

def has_list_first_item_with_more(blocks):
    for b in blocks:
        if b['k'] == 'Quote' and has_list_first_item_with_more(b['c']):
            return True
        if b['k'] in ('Bullet', 'Ordered'):
            for it in b['items']:
                if it and it[0]['k'] in ('Bullet', 'Ordered') and len(it) > 1:
                    return True
                if has_list_first_item_with_more(it):
                    return True
    return False

def first_bad_item_kind(blocks):
    for b in blocks:
        if b['k'] == 'Quote':
            r = first_bad_item_kind(b['c'])
            if r: return r
        elif b['k'] in ('Bullet', 'Ordered'):
            for it in b['items']:
                if it and it[0]['k'] not in TEXTLIKE and it[0]['k'] not in ('Bullet', 'Ordered'):
                    return it[0]['k']
                r = first_bad_item_kind(it)
                if r: return r
    return ''
