"""Read struct / enum layouts and impl headers from Rust sources (MIR prints numeric
discriminants and positional fields, so names and orders come from the source)."""
import os, re, glob

def strip_comments(src):
    src = re.sub(r'//[^\n]*', lambda m: ' ' * len(m.group(0)), src)
    src = re.sub(r'/\*.*?\*/', lambda m: re.sub(r'[^\n]', ' ', m.group(0)), src, flags=re.S)
    return src

def split_top(s, sep=','):
    out, depth, cur = [], 0, []
    i, n = 0, len(s)
    while i < n:
        ch = s[i]
        if ch == '"':
            j = i + 1
            while j < n and s[j] != '"':
                j += 2 if s[j] == '\\' else 1
            cur.append(s[i:j + 1]); i = j + 1
            continue
        if ch in '([{<':
            depth += 1
        elif ch in ')]}':
            depth -= 1
        elif ch == '>':
            if i > 0 and s[i - 1] in '-=':
                pass
            else:
                depth -= 1
        if ch == sep and depth == 0:
            out.append(''.join(cur).strip()); cur = []
        else:
            cur.append(ch)
        i += 1
    t = ''.join(cur).strip()
    if t:
        out.append(t)
    return out

def match_brace(s, i, open_='{', close='}'):
    depth = 0
    for j in range(i, len(s)):
        if s[j] == open_:
            depth += 1
        elif s[j] == close:
            depth -= 1
            if depth == 0:
                return j
    raise ValueError('unbalanced')

class TypeTable:
    def __init__(self):
        self.structs = {}   # full path -> ('named', [fields]) | ('tuple', n) | ('unit',)
        self.enums = {}     # full path -> [(vname, kind, fields)]
        self.by_last = {}   # last segment -> [full paths]
        self.impls = {}     # (file, line, col) -> (trait or None, selfty head)
        self.files = {}
        self.modules = {}

    def module_of(self, path):
        return self.modules.get(path)

    def add_file(self, path, modpath):
        src = open(path).read()
        self.files[path] = src
        self.modules[path] = modpath
        s = strip_comments(src)
        for m in re.finditer(r'\b(?:pub(?:\([^)]*\))?\s+)?struct\s+(\w+)\s*(<[^>{(;]*>)?\s*([({;])', s):
            name = m.group(1)
            full = modpath + '::' + name if modpath else name
            if m.group(3) == '{':
                j = match_brace(s, m.end() - 1)
                body = s[m.end():j]
                fields = []
                for f in split_top(body):
                    f = re.sub(r'#\[[^\]]*\]', '', f).strip()
                    fm = re.match(r'(?:pub(?:\([^)]*\))?\s+)?(\w+)\s*:\s*(.*)', f, re.S)
                    if fm:
                        fields.append((fm.group(1), ' '.join(fm.group(2).split())))
                self.structs[full] = ('named', fields)
            elif m.group(3) == '(':
                j = match_brace(s, m.end() - 1, '(', ')')
                n = len(split_top(s[m.end():j]))
                self.structs[full] = ('tuple', n)
            else:
                self.structs[full] = ('unit',)
            self.by_last.setdefault(name, []).append(full)
        for m in re.finditer(r'\b(?:pub(?:\([^)]*\))?\s+)?enum\s+(\w+)\s*(<[^>{]*>)?\s*\{', s):
            name = m.group(1)
            full = modpath + '::' + name if modpath else name
            j = match_brace(s, m.end() - 1)
            body = s[m.end():j]
            variants = []
            for v in split_top(body):
                v = re.sub(r'#\[[^\]]*\]', '', v).strip()
                if not v:
                    continue
                vm = re.match(r'(\w+)\s*(.*)', v, re.S)
                vn, rest = vm.group(1), vm.group(2).strip()
                if rest.startswith('('):
                    k = match_brace(rest, 0, '(', ')')
                    variants.append((vn, 'tuple', split_top(rest[1:k])))
                elif rest.startswith('{'):
                    k = match_brace(rest, 0)
                    fl = []
                    for f in split_top(rest[1:k]):
                        fm = re.match(r'(\w+)\s*:', f.strip())
                        if fm:
                            fl.append(fm.group(1))
                    variants.append((vn, 'struct', fl))
                else:
                    variants.append((vn, 'unit', []))
            self.enums[full] = variants
            self.by_last.setdefault(name, []).append(full)

    def resolve(self, printed):
        """printed: path as printed by MIR (possibly trimmed), generics already stripped."""
        printed = printed.strip()
        last = printed.split('::')[-1]
        cands = self.by_last.get(last, [])
        if not cands:
            return None
        if len(cands) == 1:
            return cands[0]
        best = [c for c in cands if c == printed or c.endswith('::' + printed)]
        if len(best) == 1:
            return best[0]
        # printed may carry a crate-ish prefix (graph::graph_node::X vs graph_node::X)
        for c in cands:
            if printed.endswith(c) or printed.endswith('::' + c):
                return c
        segs = printed.split('::')
        for k in range(len(segs)):
            suf = '::'.join(segs[k:])
            best = [c for c in cands if c.endswith(suf)]
            if len(best) == 1:
                return best[0]
        return None

    def impl_header(self, file, line, col):
        key = (file, line, col)
        if key in self.impls:
            return self.impls[key]
        src = self.files.get(file)
        if src is None:
            try:
                src = open(file).read()
            except OSError:
                self.impls[key] = (None, None); return self.impls[key]
            self.files[file] = src
        lines = src.split('\n')
        text = '\n'.join(lines[line - 1:line + 12])
        text = text[col - 1:]
        res = (None, None)
        if text.startswith('#[ext'):
            # `extend` crate: `#[ext] pub impl TYPE { .. }` generates `trait <TYPE letters>Ext` and `impl .. for TYPE`
            rest = '\n'.join(lines[line - 1:line + 6])
            m = re.search(r'\bimpl\s*(<[^>]*>\s*)?([^{]+?)\s*\{', rest[rest.index(']') + 1:])
            if m:
                ty = m.group(2).strip()
                res = (re.sub(r'[^A-Za-z0-9]', '', ty) + 'Ext', head(ty))
        elif text.startswith('impl'):
            hdr = text.split('{', 1)[0]
            hdr = hdr.split(' where ')[0].split('\nwhere')[0]
            hdr = hdr[4:].strip()
            if hdr.startswith('<'):
                k = match_angle(hdr, 0)
                hdr = hdr[k + 1:].strip()
            parts = re.split(r'\s+for\s+', hdr)
            if len(parts) == 2:
                res = (head(parts[0]), head(parts[1]))
            else:
                res = (None, head(parts[0]))
        elif text.startswith('derive') or re.match(r'\w+', text):
            # derive macro span: `#[derive(Clone, Debug)]` col points at the trait name
            tm = re.match(r'(\w+)', text)
            rest = '\n'.join(lines[line - 1:line + 30])
            sm = re.search(r'\b(?:struct|enum)\s+(\w+)', rest)
            res = (tm.group(1), sm.group(1) if sm else None)
        self.impls[key] = res
        return res

def match_angle(s, i):
    depth = 0
    for j in range(i, len(s)):
        if s[j] == '<':
            depth += 1
        elif s[j] == '>' and (j == 0 or s[j - 1] not in '-='):
            depth -= 1
            if depth == 0:
                return j
    raise ValueError('unbalanced <>')

def head(t):
    """`&'a GraphNodePointer<'a>` -> GraphNodePointer ; `crate::model::Key` -> Key"""
    t = t.strip()
    t = re.sub(r"^&\s*('\w+\s+)?(mut\s+)?", '&', t)
    amp = ''
    while t.startswith('&'):
        amp += '&'; t = t[1:].strip()
    t = re.sub(r'<.*$', '', t, flags=re.S).strip()
    return amp + t.split('::')[-1]

def load_crate(root, crate_dir):
    """root: repo root; crate_dir: e.g. crates/liwe"""
    tt = TypeTable()
    base = os.path.join(root, crate_dir, 'src')
    for path in sorted(glob.glob(base + '/**/*.rs', recursive=True)):
        rel = os.path.relpath(path, base)[:-3]
        segs = rel.split(os.sep)
        if segs[-1] in ('lib', 'main', 'mod'):
            segs = segs[:-1]
        tt.add_file(path, '::'.join(segs))
    return tt

if __name__ == '__main__':
    import sys
    tt = load_crate('/repo', 'crates/liwe')
    print(len(tt.structs), 'structs', len(tt.enums), 'enums')
    print(tt.enums['graph::graph_node::GraphNode'])
    print(tt.structs['graph::graph_node::Section'])
    print(tt.resolve('graph_node::Table'), tt.resolve('model::document::Table'), tt.resolve('Key'))
    print(tt.impl_header('/repo/crates/liwe/src/graph/sections_builder.rs', 22, 1))
    print(tt.impl_header('/repo/crates/liwe/src/graph/basic_iter.rs', 55, 1))
    print(tt.impl_header('/repo/crates/liwe/src/graph/arena.rs', 7, 10))
