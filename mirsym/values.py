"""Run-time values of the MIR executor: concrete shape, symbolic (z3) leaves."""
import z3

class Cell:
    __slots__ = ('v',)
    def __init__(self, v=None):
        self.v = v
    def __repr__(self):
        return 'Cell(%r)' % (self.v,)

class Ref:
    __slots__ = ('cell',)
    def __init__(self, cell):
        self.cell = cell
    def __repr__(self):
        return '&%r' % (self.cell.v,)

class Struct:
    __slots__ = ('ty', 'f', 'names')
    def __init__(self, ty, f, names=None):
        self.ty, self.f, self.names = ty, f, names
    def get(self, name):
        return self.f[self.names.index(name)].v
    def cell(self, name):
        return self.f[self.names.index(name)]
    def __repr__(self):
        if self.names:
            return '%s{%s}' % (self.ty.split('::')[-1], ', '.join('%s: %r' % (n, c.v) for n, c in zip(self.names, self.f)))
        return '%s(%s)' % (self.ty.split('::')[-1], ', '.join(repr(c.v) for c in self.f))

class Enum:
    __slots__ = ('ty', 'vi', 'vn', 'f')
    def __init__(self, ty, vi, vn, f):
        self.ty, self.vi, self.vn, self.f = ty, vi, vn, f
    def __repr__(self):
        return '%s::%s(%s)' % (self.ty.split('::')[-1], self.vn, ', '.join(repr(c.v) for c in self.f))

class Tup:
    __slots__ = ('f',)
    def __init__(self, f):
        self.f = f
    def __repr__(self):
        return '(%s)' % ', '.join(repr(c.v) for c in self.f)

class VecV:
    __slots__ = ('items',)
    def __init__(self, items=None):
        self.items = items if items is not None else []
    def __repr__(self):
        return 'vec%r' % ([c.v for c in self.items],)

class SliceV:
    """borrowed sub-slice view of a VecV: items[lo:hi]"""
    __slots__ = ('vec', 'lo', 'hi')
    def __init__(self, vec, lo, hi):
        self.vec, self.lo, self.hi = vec, lo, hi
    @property
    def items(self):
        return self.vec.items[self.lo:self.hi]

class Closure:
    __slots__ = ('span', 'f')
    def __init__(self, span, f):
        self.span, self.f = span, f
    def __repr__(self):
        return '{%s}' % self.span

class FnItem:
    __slots__ = ('path',)
    def __init__(self, path):
        self.path = path
    def __repr__(self):
        return 'fn{%s}' % self.path

class ArcV:
    __slots__ = ('cell', 'strong')
    def __init__(self, cell):
        self.cell = cell
    def __repr__(self):
        return 'Arc(%r)' % (self.cell.v,)

class BoxV:
    __slots__ = ('cell',)
    def __init__(self, cell):
        self.cell = cell
    def __repr__(self):
        return 'Box(%r)' % (self.cell.v,)

class MapV:
    """HashMap / BTreeMap model: insertion-ordered dict canon(key) -> (key value, Cell(value)).
    Iteration order is insertion order (the real order is a hash-seed artefact: outside every claim, C16)."""
    __slots__ = ('d', 'kind')
    def __init__(self, kind='HashMap'):
        self.d = {}
        self.kind = kind
    def __repr__(self):
        return '%s{%s}' % (self.kind, ', '.join('%r: %r' % (k, c.v) for k, (kv, c) in self.d.items()))

class SetV:
    __slots__ = ('d', 'kind')
    def __init__(self, kind='HashSet'):
        self.d = {}
        self.kind = kind
    def __repr__(self):
        return 'set{%s}' % ', '.join(repr(k) for k in self.d)

class Opaque:
    __slots__ = ('tag', 'data', 'numeric')
    def __init__(self, tag, data=None):
        self.tag, self.data = tag, data
    def __repr__(self):
        return '<%s>' % self.tag

class SymStr:
    """opaque string token with an identity (used where content does not matter)"""
    __slots__ = ('tok',)
    def __init__(self, tok):
        self.tok = tok

UNIT = Tup([])

def NONE(ty='Option'):
    return Enum('Option', 0, 'None', [])

def SOME(v):
    return Enum('Option', 1, 'Some', [Cell(v)])

def OK(v):
    return Enum('Result', 0, 'Ok', [Cell(v)])

def ERR(v):
    return Enum('Result', 1, 'Err', [Cell(v)])

def is_sym(v):
    return isinstance(v, z3.ExprRef)

def copy_val(v):
    """semantic of MIR `copy`: bitwise copy of a Copy value (refs stay shared)"""
    t = type(v)
    if t is Struct:
        return Struct(v.ty, [Cell(copy_val(c.v)) for c in v.f], v.names)
    if t is Tup:
        return Tup([Cell(copy_val(c.v)) for c in v.f]) if v.f else v
    if t is Enum:
        return Enum(v.ty, v.vi, v.vn, [Cell(copy_val(c.v)) for c in v.f])
    if t is Closure:
        return Closure(v.span, [Cell(copy_val(c.v)) for c in v.f])
    return v

def clone_val(v):
    """semantic of a derived Clone::clone: deep copy, Arc and & shared"""
    t = type(v)
    if t is Struct:
        return Struct(v.ty, [Cell(clone_val(c.v)) for c in v.f], v.names)
    if t is Tup:
        return Tup([Cell(clone_val(c.v)) for c in v.f]) if v.f else v
    if t is Enum:
        return Enum(v.ty, v.vi, v.vn, [Cell(clone_val(c.v)) for c in v.f])
    if t is VecV:
        return VecV([Cell(clone_val(c.v)) for c in v.items])
    if t is MapV:
        m = MapV(v.kind)
        for k, (kv, c) in v.d.items():
            m.d[k] = (clone_val(kv), Cell(clone_val(c.v)))
        return m
    if t is SetV:
        s = SetV(v.kind)
        for k, kv in v.d.items():
            s.d[k] = clone_val(kv)
        return s
    if t is BoxV:
        return BoxV(Cell(clone_val(v.cell.v)))
    if t is Closure:
        return Closure(v.span, [Cell(clone_val(c.v)) for c in v.f])
    if hasattr(v, 'clone_iter'):
        return v.clone_iter()
    return v

class NotConcrete(Exception):
    pass

def canon(v):
    """hashable canonical form of a concrete value (map keys, equality of concrete data)"""
    t = type(v)
    if t in (int, bool, str, bytes, float) or v is None:
        return v
    if t is Struct:
        return (v.ty,) + tuple(canon(c.v) for c in v.f)
    if t is Tup:
        return tuple(canon(c.v) for c in v.f)
    if t is Enum:
        return (v.ty, v.vi) + tuple(canon(c.v) for c in v.f)
    if t is VecV or t is SliceV:
        return ('vec',) + tuple(canon(c.v) for c in v.items)
    if t is ArcV or t is BoxV:
        return canon(v.cell.v)
    if t is Ref:
        return canon(v.cell.v)
    if t is SymStr:
        return ('symstr', v.tok)
    if t is MapV:
        return ('map',) + tuple(sorted(((k, canon(c.v)) for k, (kv, c) in v.d.items()), key=repr))
    if t is SetV:
        return ('set',) + tuple(sorted(v.d.keys(), key=repr))
    if is_sym(v):
        s = z3.simplify(v)
        if z3.is_bv_value(s):
            return s.as_long()
        if z3.is_true(s):
            return True
        if z3.is_false(s):
            return False
        raise NotConcrete(str(v))
    if t is Opaque:
        return ('opaque', v.tag)
    raise NotConcrete(repr(v))
