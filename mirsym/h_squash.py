"""H17: squash.  Real GraphContext::squash / NodePointer::squash_tree / Tree::squash_from_pointer / GraphNodePointer::to_key,
GraphContext::collect, and the CLI rebuild Graph::build_key_from_iter / GraphBuilder::insert_from_iter over TreeIter.
Symbolic: depth (u8).  Reference graph and note shapes by forking within the bounds."""
import z3
from harness import *
import h_doc
from h_doc import arena_std, std_json, check_ri, describe

class NoteGen(h_doc.Gen):
    """notes made of Para / Header / Ref(target) / Quote / Bullet"""
    def __init__(self, hz, ctx, budget, max_nest, targets, prefix):
        h_doc.Gen.__init__(self, hz, ctx, budget, max_nest, kinds=('Para', 'Header', 'Ref', 'Quote', 'Bullet'))
        self.targets = targets
        self.prefix = prefix

    def block(self, nest):
        ctx, h = self.ctx, self.h
        kinds = [k for k in self.kinds if nest < self.max_nest or k not in ('Quote', 'Bullet')]
        if nest > 0 and self.first_in_item:
            kinds = [k for k in kinds if k in ('Para', 'Header', 'Ref')]
        k = kinds[ctx.choose(len(kinds))]
        self.budget -= 1
        t = '%s%d' % (self.prefix, self.tok); self.tok += 1
        if k == 'Para':
            return {'k': 'Para', 't': t}, h.para([h.istr(t)], self.lr())
        if k == 'Header':
            return {'k': 'Header', 't': t, 'lv': 1}, h.header(1, [h.istr(t)], self.lr())
        if k == 'Ref':
            tgt = self.targets[ctx.choose(len(self.targets))]
            return {'k': 'Ref', 't': t, 'url': tgt}, h.para([h.ilink(tgt, t)], self.lr())
        if k == 'Quote':
            lr = self.lr(0)
            self.first_in_item = False
            cn, cv = self.seq(nest + 1, min_len=1)
            return {'k': 'Quote', 'c': cn}, h.quote(cv, lr)
        self.first_in_item = True
        n0, v0 = self.block(nest + 1)
        self.first_in_item = False
        cn, cv = self.seq(nest + 1)
        return {'k': 'Bullet', 'items': [[n0] + cn]}, h.bullets([[v0] + cv])

    first_in_item = False

def is_ref(t):
    return t['node'].get('_v') == 'Reference'

def canon_tree(t):
    import json
    return (json.dumps(t['node'], sort_keys=True), tuple(sorted(canon_tree(c) for c in t['children'])))

def strip(t):
    return {'node': t['node'], 'children': [strip(c) for c in t['children']]}

class SquashHarness(Harness):
    name = 'squash'
    real_functions = ('GraphContext::squash', 'NodePointer::squash_tree', 'Tree::squash_from_pointer', 'GraphNodePointer::to_key/next/child/node',
                      'NodePointer::ref_key/is_reference', 'GraphContext::collect', 'Graph::build_key_from_iter', 'GraphBuilder::insert_from_iter/'
                      'append_from_visitor/add_new_node_and', 'TreeIter::*', 'SectionsBuilder::*')
    required_covers = ('expanded', 'kept-at-depth-0', 'dangling-kept', 'cycle', 'nested-ref-expanded')
    tv_every = 41
    tv_phase = 0

    def __init__(self, prog, tier='quick', mode='graphs', name=None):
        Harness.__init__(self, prog, tier)
        self.mode = mode
        if name: self.name = name
        if mode == 'graphs':
            self.notes = ['a', 'b'] if tier == 'quick' else ['a', 'b', 'c']
            self.budget = 2 if tier == 'quick' else 2
            self.max_depth_val = 3 if tier == 'quick' else 6
            self.required_covers = ('expanded', 'kept-at-depth-0', 'dangling-kept', 'cycle', 'nested-ref-expanded')
        else:
            self.notes = ['a', 'b']
            self.budget = 2
            self.max_depth_val = 255
            self.required_covers = ('expanded', 'kept-at-depth-0', 'cycle', 'depth-255')
        self.bounds = {'notes': len(self.notes), 'blocks_per_note': self.budget, 'depth': ('0..%d (symbolic u8)' % self.max_depth_val) if (self.max_depth_val < 255 or tier != 'quick') else '0..12 and 253..255 (symbolic u8)',
                       'graph': 'arbitrary (targets: every note incl. self, missing note zz)' if mode == 'graphs' else 'chains and self-loops'}
        self.max_depth = 6000
        self.max_steps = 30_000_000

    def run(self, ctx, ex):
        h = self.h
        g = ex.call('Graph::new', [])
        gref = Ref(Cell(g))
        docs = {}
        targets = self.notes + ['zz']
        for n in self.notes:
            if self.mode == 'graphs':
                gen = NoteGen(self, ctx, self.budget, 1, targets, n.upper())
                dn, dv = gen.seq(0, min_len=1)
            else:
                # chain a -> b -> zz, or self loops: [Para, Ref(next)]
                tgt = {'a': ['b', 'a'], 'b': ['zz', 'b', 'a']}[n]
                t = tgt[ctx.choose(len(tgt))]
                dn = [{'k': 'Para', 't': n.upper() + '0'}, {'k': 'Ref', 't': n.upper() + '1', 'url': t}]
                dv = [h.para([h.istr(n.upper() + '0')], h.rng(0, 1)), h.para([h.ilink(t, n.upper() + '1')], h.rng(2, 3))]
            docs[n] = dn
            key = h.key(n)
            kc = Cell(key)
            b = ex.call('Graph::build_key', [gref, Ref(kc)])
            ex.call("SectionsBuilder::<'_>::new", [Ref(Cell(b)), Ref(Cell(h.vec(dv))), Ref(kc)])
        depth = ctx.sym_bv('depth', 8)
        if self.max_depth_val < 255:
            ctx.assume(z3.ULE(depth, self.max_depth_val))
        elif self.tier == 'quick':
            ctx.assume(z3.Or(z3.ULE(depth, 12), z3.UGE(depth, 253)))
        ctx.input_desc = {n: describe(d) for n, d in docs.items()}
        ctx.docs = docs
        trees = {}
        for n in self.notes:
            t = ex.call('<&Graph as GraphContext>::collect', [Ref(Cell(gref)), Ref(Cell(h.key(n)))])
            trees[n] = strip(std_json(pyval(t)))
        root = self.notes[0]
        info = {'input': ctx.input_desc}
        try:
            sq = ex.call('<&Graph as GraphContext>::squash', [Ref(Cell(gref)), Ref(Cell(h.key(root))), depth])
        except BoundExceeded as e:
            ctx.law('C17.terminates', False, dict(info, bound=str(e)))
            return info
        ctx.law('C17.terminates', True)
        actual = strip(std_json(pyval(sq)))
        self.flags = set()
        expected = {'node': trees[root]['node'], 'children': self.exp_children(ctx, trees[root]['children'], depth, trees, 0)}
        ok = canon_tree(actual) == canon_tree(expected)
        ctx.law('C17.squash-equals-bounded-expansion', ok, dict(info, expected=expected, actual=actual))
        for f in self.flags:
            ctx.cover(f)
        # ---- CLI path: the squashed tree fed back through the builder must give the same tree
        patch = ex.call('Graph::new', [])
        pref = Ref(Cell(patch))
        it = ex.call('TreeIter::<\'_>::new', [Ref(Cell(sq))])
        ex.call("Graph::build_key_from_iter::<TreeIter<'_>>", [pref, Ref(Cell(h.key(root))), it])
        rebuilt = ex.call('<&Graph as GraphContext>::collect', [Ref(Cell(pref)), Ref(Cell(h.key(root)))])
        rb = strip(std_json(pyval(rebuilt)))
        ctx.law('C17.rebuilt-tree-equals-squashed-tree', rb == actual, dict(info, squashed=actual, rebuilt=rb))
        pn = arena_std(patch)
        pk = {k[1]: c.v for k, (kv, c) in patch.get('keys').d.items()}
        bad = check_ri(pn, pk)
        ctx.law('C20.RI-established-by-patch-graph', not bad, dict(info, problems=bad[:5]))
        if self.tv_pick(ctx.trace):
            m = ctx.model()
            ctx.tv = {'script': self.script(docs, root, m.get('depth', 0)), 'expect': None, 'post': json_dumps(actual)}
        return {'input': ctx.input_desc, 'squashed_nodes': count(actual)}

    def exp_children(self, ctx, children, depth, trees, level):
        if level > 300:
            raise BoundExceeded('reference expansion deeper than 300')
        out = []
        for c in children:
            if is_ref(c):
                tgt = c['node']['_0']['key']['relative_path']
                positive = ctx.branch(z3.UGT(depth, 0)) if not isinstance(depth, int) else depth > 0
                if positive and tgt in trees:
                    self.flags.add('expanded')
                    if level >= len(trees): self.flags.add('cycle')
                    if level >= 254: self.flags.add('depth-255')
                    out.extend(self.exp_children(ctx, trees[tgt]['children'], depth - 1, trees, level + 1))
                else:
                    if not positive: self.flags.add('kept-at-depth-0')
                    elif tgt not in trees: self.flags.add('dangling-kept')
                    out.append({'node': c['node'], 'children': []})
            else:
                sub = self.exp_children(ctx, c['children'], depth, trees, level)
                if c['node'].get('_v') in ('Quote', 'BulletList', 'Section') and any(is_ref(x) for x in c['children']) and level == 0 \
                        and c['node'].get('_v') != 'Section':
                    self.flags.add('nested-ref-expanded')
                out.append({'node': c['node'], 'children': sub})
        return out

    def on_panic(self, ctx, ex, e, res):
        ctx.violations.append({'law': 'C17.terminates', 'model': ctx.model(),
                               'info': {'msg': res['detail'], 'where': res.get('where'), 'input': getattr(ctx, 'input_desc', None), 'panic': True}})

    def tv_pick(self, trace):
        import zlib
        return zlib.crc32(repr(trace).encode()) % self.tv_every == self.tv_phase

    def script(self, docs, root, depth):
        s = []
        for n, d in docs.items():
            s.append({'op': 'doc', 'key': n, 'blocks': h_doc.concretize_tree(d, {})})
        s.append({'op': 'squash', 'key': root, 'depth': int(depth)})
        return s

    def tv_compare(self, tv, native_out):
        r = native_out[-1]
        if isinstance(r, dict) and 'panic' in r:
            return False
        return json_dumps(strip(r)) == tv['post']

    def finish_violation(self, ctx, v):
        v['role'] = 'general'
        v['input_tree'] = {'docs': {n: h_doc.concretize_tree(d, {}) for n, d in ctx.docs.items()}, 'depth': (v.get('model') or {}).get('depth', 0)}

    def replay(self, v, driver):
        d = v['input_tree']
        root = sorted(d['docs'])[0]
        script = self.script(d['docs'], root, d['depth'])
        for n in sorted(d['docs']):
            script.append({'op': 'collect', 'key': n})
        res = driver.run(script, timeout=30)
        v['replay_script'] = script
        if v['law'] == 'C17.terminates':
            crashed = res and isinstance(res[-1], dict) and ('panic' in res[-1] or 'crash' in res[-1])
            v['replay_verdict'] = 'native squash: %s' % (res[-1] if crashed else 'terminated')
            return bool(crashed)
        if any(isinstance(x, dict) and ('panic' in x or 'crash' in x) for x in res):
            v['replay_verdict'] = 'native panic/crash %s' % res[-1]
            return True
        nd = len(d['docs'])
        sq = strip(res[nd])
        trees = {n: strip(t) for n, t in zip(sorted(d['docs']), res[nd + 1:])}
        self.flags = set()
        exp = {'node': trees[root]['node'], 'children': self.exp_children(None, trees[root]['children'], int(d['depth']), trees, 0)}
        v['replay_result'] = {'native_squash': sq, 'expected': exp}
        bad = canon_tree(sq) != canon_tree(exp)
        v['replay_verdict'] = 'native squash %s the bounded expansion' % ('differs from' if bad else 'equals')
        if v['law'] == 'C17.squash-equals-bounded-expansion':
            return bad
        return True

def json_dumps(x):
    import json
    return json.dumps(x, sort_keys=True)

def count(t):
    return 1 + sum(count(c) for c in t['children'])
