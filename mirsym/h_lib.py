"""H4 / H5 / H20b: library-level harness.  Real Graph::import / update_key / from_markdown / delete_branch / RefIndex /
graph_to_paths / get_*_references_to / get_node_id_at are executed from MIR; the Markdown text parser is the stubbed
environment (MarkdownReader::document returns the Document chosen for a content token)."""
import re
import z3
from harness import *
import h_doc
from h_doc import arena_std, std_json, check_ri, inl_text

# ---------------------------------------------------------------- documents
# the heading text that repeats across notes: long and non-ASCII, so byte offsets and char boundaries differ (265 bytes, 135 chars)
SAME = 'SAMEx' + '\u00f6' * 130

def mk_doc(h, spec, counter):
    """spec: list of block specs -> (neutral blocks, Document value).  Block specs:
    ('H',) heading, ('P',) para, ('R', url) reference para, ('I', url) para with inline link, ('T',) table, ('C',) code,
    ('U',) rule, ('L', url) bullet list item with inline link + nested ref, ('Q', url) quote holding a reference para,
    ('E', url) para with the link inside emphasis, ('HL', url) heading containing an inline link"""
    neutral, vals = [], []
    line = [0]
    def lr(n=1):
        r = h.rng(line[0], line[0] + n); line[0] += n + 1
        return r, [r.f[0].v, r.f[1].v]
    def tok():
        counter[0] += 1
        return 'T%d' % counter[0]
    meta = None
    for b in spec:
        k = b[0]
        if k == 'M':
            meta = b[1]
            continue
        if k == 'B':            # a leading blank line: every block starts one line later
            line[0] += 1
            neutral.append({'k': 'Blank'})
            continue
        if k == 'H':
            t = tok(); r, l = lr()
            lv = b[1] if len(b) > 1 else 1
            neutral.append({'k': 'Header', 't': t, 'lv': lv, 'lr': l}); vals.append(h.header(lv, [h.istr(t)], r))
        elif k == 'Hs':      # heading whose text repeats in other notes
            r, l = lr()
            neutral.append({'k': 'Header', 't': SAME, 'lv': 1, 'lr': l}); vals.append(h.header(1, [h.istr(SAME)], r))
        elif k == 'QH':
            t = tok(); r, l = lr()
            neutral.append({'k': 'Quote', 'lr': l, 'c': [{'k': 'Header', 't': t, 'lv': 1, 'lr': l}]})
            vals.append(h.quote([h.header(1, [h.istr(t)], r)], r))
        elif k == 'LH':
            t = tok(); t2 = tok(); r, l = lr(); r2, l2 = lr()
            neutral.append({'k': 'Bullet', 'items': [[{'k': 'Para', 't': t, 'lr': l}, {'k': 'Header', 't': t2, 'lv': 1, 'lr': l2}]]})
            vals.append(h.bullets([[h.para([h.istr(t)], r), h.header(1, [h.istr(t2)], r2)]]))
        elif k == 'HL':
            t = tok(); r, l = lr()
            neutral.append({'k': 'Header', 't': t, 'lv': 1, 'lr': l, 'inl': [{'k': 'Str', 't': t + ' '}, {'k': 'Link', 'url': b[1], 'c': [{'k': 'Str', 't': 'x'}]}]})
            vals.append(h.header(1, [h.istr(t + ' '), h.ilink(b[1], 'x')], r))
        elif k == 'P':
            t = tok(); r, l = lr()
            neutral.append({'k': 'Para', 't': t, 'lr': l}); vals.append(h.para([h.istr(t)], r))
        elif k == 'R':
            t = tok(); r, l = lr()
            neutral.append({'k': 'Ref', 't': t, 'url': b[1], 'lr': l}); vals.append(h.para([h.ilink(b[1], t)], r))
        elif k == 'I':
            t = tok(); r, l = lr()
            neutral.append({'k': 'Para', 't': t, 'lr': l, 'inl': [{'k': 'Str', 't': t + ' '}, {'k': 'Link', 'url': b[1], 'c': [{'k': 'Str', 't': 'x'}]}]})
            vals.append(h.para([h.istr(t + ' '), h.ilink(b[1], 'x')], r))
        elif k == 'E':
            t = tok(); r, l = lr()
            neutral.append({'k': 'Para', 't': t, 'lr': l, 'inl': [{'k': 'Str', 't': t + ' '}, {'k': 'Emph', 'c': [{'k': 'Link', 'url': b[1], 'c': [{'k': 'Str', 't': 'x'}]}]}]})
            vals.append(h.para([h.istr(t + ' '), h.iemph([h.ilink(b[1], 'x')])], r))
        elif k == 'T':
            t = tok(); r, l = lr(3)
            neutral.append({'k': 'Table', 't': t, 'lr': l}); vals.append(h.table([[h.istr(t + 'h')]], [[[h.istr(t + 'c')]]], r))
        elif k == 'C':
            t = tok(); r, l = lr(3)
            neutral.append({'k': 'Code', 't': t, 'lang': 'rs', 'lr': l}); vals.append(h.code(t + '\n', 'rs', r))
        elif k == 'U':
            r, l = lr()
            neutral.append({'k': 'Rule', 'lr': l}); vals.append(h.rule(r))
        elif k == 'L':
            t = tok(); t2 = tok(); r, l = lr(); r2, l2 = lr()
            neutral.append({'k': 'Bullet', 'items': [[
                {'k': 'Para', 't': t, 'lr': l, 'inl': [{'k': 'Str', 't': t + ' '}, {'k': 'Link', 'url': b[1], 'c': [{'k': 'Str', 't': 'x'}]}]},
                {'k': 'Ref', 't': t2, 'url': b[1], 'lr': l2}]]})
            vals.append(h.bullets([[h.para([h.istr(t + ' '), h.ilink(b[1], 'x')], r), h.para([h.ilink(b[1], t2)], r2)]]))
        elif k == 'Q':
            t = tok(); r, l = lr()
            neutral.append({'k': 'Quote', 'lr': l, 'c': [{'k': 'Ref', 't': t, 'url': b[1], 'lr': l}]})
            vals.append(h.quote([h.para([h.ilink(b[1], t)], r)], r))
        else:
            raise ValueError(k)
    if meta is not None:
        neutral = [{'k': 'Meta', 't': meta}] + neutral
    return neutral, h.document(vals, meta)

def block_menu(targets, rich):
    m = [('P',), ('T',), ('C',), ('U',)]
    for t in targets:
        m += [('R', t), ('I', t)]
        if rich:
            m += [('L', t), ('Q', t), ('E', t)]
    return m

def gen_doc_spec(ctx, targets, max_blocks, rich, heading_links=False, small_tail=False):
    spec = []
    hd = ctx.choose(3 if heading_links else 2)
    if hd == 1:
        spec.append(('H',))
    elif hd == 2:
        spec.append(('HL', targets[0]))
    menu = block_menu(targets, rich)
    for i in range(max_blocks):
        if i > 0 and small_tail:
            menu = [('P',), ('R', targets[0]), ('I', targets[1])]
        c = ctx.choose(len(menu) + 1)
        if c == len(menu):
            break
        spec.append(menu[c])
    return spec

# ---------------------------------------------------------------- independent reference: link resolution + scan
def norm_path(p):
    out = []
    for c in p.split('/'):
        if c in ('', '.'):
            continue
        if c == '..':
            if out:
                out.pop()
            continue
        out.append(c)
    return '/'.join(out)

def is_external(url):
    u = url.lower()
    return u.startswith('http://') or u.startswith('https://') or u.startswith('mailto:')

def resolve(url, note_key):
    """the statement's rule: relative to the directory of the linking note, .md suffix ignored"""
    if is_external(url):
        return None
    u = url
    while u.endswith('.md'):
        u = u[:-3]
    d = note_key.rsplit('/', 1)[0] if '/' in note_key else ''
    return norm_path((d + '/' if d else '') + u)

def scan_links(blocks, note_key, out_block, out_inline, ord_counter):
    """pre-order scan of a neutral document: ordinals follow arena pre-order (container nodes count too)"""
    for b in blocks:
        k = b['k']
        if k in ('Meta', 'Blank'):
            continue
        if k == 'Ref':
            o = ord_counter[0]; ord_counter[0] += 1
            tgt = resolve(b['url'], note_key)
            if tgt is not None:
                out_block.setdefault(tgt, set()).add((note_key, o))
        elif k in ('Para', 'Header'):
            o = ord_counter[0]; ord_counter[0] += 1
            for url in inline_urls(b.get('inl', [])):
                tgt = resolve(url, note_key)
                if tgt is not None:
                    out_inline.setdefault(tgt, set()).add((note_key, o))
        elif k in ('Code', 'Rule', 'Table'):
            ord_counter[0] += 1
        elif k == 'Quote':
            ord_counter[0] += 1
            scan_links(b['c'], note_key, out_block, out_inline, ord_counter)
        elif k in ('Bullet', 'Ordered'):
            ord_counter[0] += 1
            for it in b['items']:
                scan_links(it, note_key, out_block, out_inline, ord_counter)

def line_blocks(blocks, out, ord_counter):
    """(pre-order ordinal, [start, end)) of every block that has a line range, in document order"""
    for b in blocks:
        k = b['k']
        if k in ('Meta', 'Blank'):
            continue
        o = ord_counter[0]; ord_counter[0] += 1
        if k in ('Bullet', 'Ordered'):
            for it in b['items']:
                line_blocks(it, out, ord_counter)
            continue
        if 'lr' in b:
            out.append((o, b['lr']))
        if k == 'Quote':
            line_blocks(b['c'], out, ord_counter)
    return out

def inline_urls(inl):
    for i in inl:
        if i['k'] == 'Link':
            yield i['url']
        if 'c' in i:
            yield from inline_urls(i['c'])

# ---------------------------------------------------------------- observations
def ordinals(nodes, keys):
    """node id -> (note key, pre-order ordinal) for nodes reachable from the roots in `keys`"""
    m = {}
    for k, rid in sorted(keys.items()):
        n = [0]
        def walk(i):
            while i is not None:
                if not (0 <= i < len(nodes)) or nodes[i]['kind'] == 'Empty' or i in m:
                    return
                nd = nodes[i]
                if nd['kind'] != 'Document':
                    m[i] = (k, n[0]); n[0] += 1
                else:
                    m[i] = (k, -1)
                if nd.get('child') is not None:
                    walk(nd['child'])
                i = nd.get('next') if nd['kind'] != 'Document' else None
        walk(rid)
    return m

def name_id(i, nodes, om):
    if i in om:
        return om[i]
    if 0 <= i < len(nodes) and nodes[i]['kind'] == 'Empty':
        return ('dead', i)
    return ('orphan', i)

def strip_ids(t):
    return {'node': t['node'], 'children': [strip_ids(c) for c in t['children']]}

class LibHarness(Harness):
    name = 'library'
    real_functions = ('Graph::import', 'Graph::update_key', 'Graph::from_markdown', 'Graph::build_key', 'Arena::delete_branch',
                      'RefIndex::index_node/merge/get_*', 'Graph::get_block_references_to/get_inline_references_to/get_key_title',
                      'Graph::extract_ref_text', 'GraphContext::get_node_id_at/collect', 'graph_to_paths/paths_for_node', 'SectionsBuilder::*',
                      'Line::ref_keys', 'GraphInline::ref_keys/ref_key', 'Key::from_rel_link_url/from_file_name/parent')
    required_covers = ('update-existing', 'backlink-present', 'backlink-removed-by-edit', 'title-changed')
    tv_every = 53
    tv_phase = 0

    def __init__(self, prog, tier='quick', mode='history', name=None):
        Harness.__init__(self, prog, tier)
        if name: self.name = name
        self.mode = mode
        if mode == 'meta':
            self.required_covers = ('update-existing', 'front-matter')
        self.keys = ['a', 'b']
        self.bounds = {'notes': 2, 'history_steps': 1 if tier == 'quick' else 2,
                       'old_doc_blocks': 1, 'new_doc_blocks': 2 if tier == 'quick' else 2,
                       'link_targets': ['other note', 'self', 'missing note zz'], 'parser': 'stubbed (token -> Document)'}
        self.docs = {}
        pat = re.compile(r'Reader>::document$|MarkdownReader::document$')
        self.stub_pat = pat

    def stub_document(self, ex, c, args, dt):
        tok = natives_as_str(args[1])
        if tok not in self.cur_docs:
            raise Unsupported('parser stub: unknown content token %r' % tok)
        return clone_val(self.cur_docs[tok][1])

    def new_token(self, spec, h, counter, text=None):
        start = counter[0]
        n, v = mk_doc(h, spec, counter)
        tok = text if text is not None else ('DOC%d' % len(self.cur_docs) if spec else '')        # the text of an empty document is the empty string
        self.cur_docs[tok] = (n, v, spec)
        if not hasattr(self, 'tok_start'): self.tok_start = {}
        self.tok_start[tok] = start
        return tok

    def observe(self, ex, g, texts, line):
        """everything the server answers, with node ids renamed to (note, pre-order ordinal)"""
        h = self.h
        gref = Ref(Cell(g))
        nodes = arena_std(g)
        keys = {k[1]: c.v for k, (kv, c) in g.get('keys').d.items()}
        om = ordinals(nodes, keys)
        obs = {}
        for k in sorted(set(texts) | {'zz'}):
            kv = h.key(k)
            br = ex.call('Graph::get_block_references_to', [gref, Ref(Cell(kv))])
            ir = ex.call('Graph::get_inline_references_to', [gref, Ref(Cell(kv))])
            obs['block_refs_to:' + k] = sorted(name_id(c.v, nodes, om) for c in br.items)
            obs['inline_refs_to:' + k] = sorted(name_id(c.v, nodes, om) for c in ir.items)
            obs['title:' + k] = pyval(ex.call('Graph::get_key_title', [gref, Ref(Cell(kv))]))
            me = g.get('metadata').d.get((kv.ty, k))
            obs['metadata:' + k] = pyval(me[1].v) if me else None
        for k in sorted(texts):
            kv = h.key(k)
            t = ex.call('<&Graph as GraphContext>::collect', [Ref(Cell(gref)), Ref(Cell(kv))])
            obs['tree:' + k] = strip_ids(std_json(pyval(t)))
        ps = ex.call('Graph::paths', [gref])
        obs['paths'] = sorted([name_id(c.v, nodes, om) for c in p.get('ids').items] for p in (x.v for x in ps.items))
        return obs, nodes, keys

    def fresh(self, ex, texts):
        return self.fresh_db(ex, texts).get('graph')

    def fresh_db(self, ex, texts):
        """Database::new on the given texts (import + search paths + raw text map), as a server start does"""
        st = MapV('HashMap')
        for k, tok in texts.items():
            st.d[k] = (k, Cell(tok))
        opts = ex.call('<MarkdownOptions as Default>::default', [], 'model::config::MarkdownOptions')
        return ex.call('Database::new', [st, False, opts])

    def observe_db(self, ex, db, texts, nodes, om):
        obs = {}
        for k in sorted(texts):
            e = db.get('content').d.get(('model::Key', k))
            obs['content:' + k] = pyval(e[1].v) if e else None
        sp = []
        for p in (x.v for x in db.get('paths').items):
            ids = [c.v for c in p.get('path').get('ids').items]
            sp.append([pyval(p.get('key'))['relative_path'], p.get('root'), p.get('line'), p.get('node_rank'), [list(name_id(i, nodes, om)) for i in ids], p.get('search_text')])
        obs['search'] = sp
        return obs

    def run(self, ctx, ex):
        h = self.h
        self.cur_docs = {}
        self.prog.overrides = {self.stub_pat: self.stub_document}
        counter = [0]
        quick = self.tier == 'quick'
        # which note is edited; the other one takes a small menu
        upd = self.keys[ctx.choose(2)]
        oth = [k for k in self.keys if k != upd][0]
        targets = [oth, 'zz', upd]
        other_menu = [[('P',)], [('H',), ('R', upd)], [('I', upd)], [('R', 'zz')], [('Hs',), ('P',)]] + ([] if quick else [[('H',), ('P',)], [('I', 'zz')]])
        other_spec = other_menu[ctx.choose(len(other_menu))]
        if self.mode == 'meta':
            other_spec = [('P',)]
            old_spec = ([('M', 'title: x\n')] if ctx.choose(2) else []) + [('H',), ('P',)]
        elif quick:
            old_menu = [[], [('P',)], [('R', oth)], [('I', oth)], [('R', 'zz')], [('I', 'zz')],
                        [('T',), ('P',)], [('T',), ('R', oth)], [('C',), ('I', oth)], [('U',), ('P',)], [('P',), ('Hs',)], [('B',), ('P',)], [('Q', oth), ('P',)]]
            old_spec = ([('H',)] if ctx.choose(2) else []) + old_menu[ctx.choose(len(old_menu))]
        else:
            old_spec = gen_doc_spec(ctx, targets[:2], 1, False)
        texts = {upd: self.new_token(old_spec, h, counter), oth: self.new_token(other_spec, h, counter)}
        texts0 = dict(texts)
        step_texts = []
        # known before anything runs, so that a panic while loading the library can be replayed
        ctx.input_desc = {'initial': {upd: old_spec, oth: other_spec}, 'history': [],
                          'texts0': {upd: render_neutral(self.cur_docs[texts0[upd]][0]), oth: render_neutral(self.cur_docs[texts0[oth]][0])}, 'step_texts': []}
        db = self.fresh_db(ex, texts)
        dbref = Ref(Cell(db))
        g = db.get('graph')
        gref = Ref(db.cell('graph'))
        steps = 2 if (self.mode == 'meta' or not quick) else 1
        hist = []
        line = ctx.sym_bv('line', 64)
        for step in range(steps):
            if self.mode == 'meta':
                key = [upd, oth][ctx.choose(2)] if step else upd
                spec = ([('M', 'title: y\n')] if ctx.choose(2) else []) + [('P',)]
            elif step == 0 and (first := ctx.choose(3)) == 1:
                key = 'c'           # a brand-new note arrives through the edit path (didChange / didSave of a new file)
                menu_c = [[('P',)], [('H',), ('R', upd)], [('R', 'zz')]]
                spec = menu_c[ctx.choose(len(menu_c))]
            elif step == 0 and first == 2:
                # a whitespace-only edit: the same words, one blank line inserted at the top (every line moves)
                key = upd
                spec = [('B',)] + [b for b in old_spec]
                ws_text = '\n' + texts[upd]
                ctx.cover('whitespace-only-edit')
            elif step == 0:
                key = upd
                spec = gen_doc_spec(ctx, targets[:2] if quick else targets, 2, not quick, small_tail=quick)
            else:
                kind = ctx.choose(3)            # edit the same note again, edit the other, insert a new note
                key = [upd, oth, 'c'][kind]
                spec = gen_doc_spec(ctx, targets[:2], 1, False)
            if step == 0 and self.mode != 'meta' and first == 2:
                tok = self.new_token(spec, h, [self.tok_start[texts[upd]]], text=ws_text)
            else:
                tok = self.new_token(spec, h, counter)
            before = arena_std(g)
            ex.call('Database::update_document', [dbref, h.key(key), tok])
            g = db.get('graph')
            texts[key] = tok
            hist.append((key, spec))
            ctx.input_desc = {'initial': {upd: old_spec, oth: other_spec}, 'history': hist,
                              'texts0': {upd: render_neutral(self.cur_docs[texts0[upd]][0]), oth: render_neutral(self.cur_docs[texts0[oth]][0])},
                              'step_texts': step_texts + [render_neutral(self.cur_docs[tok][0])]}
            step_texts = ctx.input_desc['step_texts']
            ctx.hist_state = (dict(texts), {t: self.cur_docs[t][0] for t in texts.values()})
            fdb = self.fresh_db(ex, texts)
            fresh = fdb.get('graph')
            oi, nodes_i, keys_i = self.observe(ex, g, texts, line)
            of, nodes_f, keys_f = self.observe(ex, fresh, texts, line)
            oi.update(self.observe_db(ex, db, texts, nodes_i, ordinals(nodes_i, keys_i)))
            of.update(self.observe_db(ex, fdb, texts, nodes_f, ordinals(nodes_f, keys_f)))
            info = {'input': ctx.input_desc}
            codiffs = [n_ for n_ in sorted(of) if oi.get(n_) != of[n_]]
            ctx.law('C18.paths-after-edit-equal-fresh-start', oi['paths'] == of['paths'], dict(info, incremental=oi['paths'], fresh=of['paths'], step=step))
            for name in sorted(of):
                if oi.get(name) != of[name]:
                    ctx.law('C04.incremental-equals-fresh:' + name.split(':')[0], False,
                            dict(info, observation=name, incremental=oi.get(name), fresh=of[name], step=step, codiffs=codiffs))
                else:
                    ctx.law('C04.incremental-equals-fresh:' + name.split(':')[0], True)
            # ---- block found at a line: symbolic line, every branch of both lookups (pure => local exploration)
            omi, omf = ordinals(nodes_i, keys_i), ordinals(nodes_f, keys_f)
            for k in sorted(texts):
                def lookup(k=k):
                    kv = h.key(k)
                    ri = ex.call('<&Graph as GraphContext>::get_node_id_at', [Ref(Cell(gref)), Ref(Cell(kv)), line])
                    rf = ex.call('<&Graph as GraphContext>::get_node_id_at', [Ref(Cell(Ref(Cell(fresh)))), Ref(Cell(kv)), line])
                    a = None if ri.vi == 0 else name_id(ri.f[0].v, nodes_i, omi)
                    b = None if rf.vi == 0 else name_id(rf.f[0].v, nodes_f, omf)
                    ctx.law('C04.incremental-equals-fresh:node_at_line', a == b, dict(info, observation='node_at_line:' + k, incremental=a, fresh=b, step=step))
                    # C13: the block found at a line is the innermost (last in document order) block whose lines contain it
                    lbs = line_blocks(self.cur_docs[texts[k]][0], [], [0])
                    inside = lambda lr: z3.And(z3.UGE(line, lr[0]), z3.ULT(line, lr[1]))
                    if b is None:
                        ctx.law('C13.block-at-line-found-whenever-a-block-covers-the-line', z3.Not(z3.Or(*[inside(lr) for o, lr in lbs])) if lbs else True,
                                dict(info, note=k, found=None, blocks=lbs))
                    else:
                        later = [lr for o, lr in lbs if o > b[1]]
                        mine = [lr for o, lr in lbs if o == b[1]]
                        ok = z3.And(inside(mine[0]), *[z3.Not(inside(lr)) for lr in later]) if mine else False
                        ctx.law('C13.block-at-line-is-the-innermost-block-covering-it', ok, dict(info, note=k, found=list(b), blocks=lbs))
                    return (a, b)
                ctx.forall(lookup)
            # ---- C12: ids answered by the reference index are live nodes (handlers call node_key / line ranges on them unguarded)
            dead = sorted(str(x) for n_ in oi for x in (oi[n_] if n_.startswith(('block_refs_to', 'inline_refs_to')) else []) if x[0] in ('dead', 'orphan'))
            ctx.law('C12.reference-ids-answered-are-live-nodes', not dead, dict(info, dead=dead[:4], step=step))
            # ---- C20 / H20b: preserve step
            bad = check_ri(nodes_i, keys_i)
            ctx.law('C20.RI-preserved-by-update', not bad, dict(info, problems=bad[:5], step=step))
            reused = [i for i in range(min(len(before), len(nodes_i))) if before[i]['kind'] == 'Empty' and nodes_i[i]['kind'] != 'Empty']
            ctx.law('C20.ids-never-reused', not reused and len(nodes_i) >= len(before), dict(info, reused=reused, step=step))
            omb = ordinals(before, {k: v for k, v in keys_i.items() if k != key})
            touched = [i for i in omb if before[i] != nodes_i[i]]
            ctx.law('C20.other-notes-untouched', not touched, dict(info, touched=touched[:5], step=step))
            # ---- C01: front-matter kept verbatim (a restart answers with the document's own front-matter)
            for k, tok_ in sorted(texts.items()):
                dm = [b['t'] for b in self.cur_docs[tok_][0] if b['k'] == 'Meta']
                ctx.law('C01.front-matter-kept', of['metadata:' + k] == (dm[0] if dm else None), dict(info, note=k, graph_metadata=of['metadata:' + k], document=dm, graph='fresh'))
                ctx.law('C01.front-matter-kept', oi['metadata:' + k] == (dm[0] if dm else None), dict(info, note=k, graph_metadata=oi['metadata:' + k], document=dm, graph='incremental'))
                if dm: ctx.cover('front-matter')
            # ---- C06: link titles on the incrementally updated graph are those of the current documents
            cur_titles = {}
            for k, tok_ in texts.items():
                first = [b for b in self.cur_docs[tok_][0] if b['k'] not in ('Meta', 'Blank')][:1]          # a leading blank line is not a block
                cur_titles[k] = h_doc.inl_text_neutral(first[0]) if first and first[0]['k'] == 'Header' else None
            for k in sorted(texts):
                got_links = tree_links(oi['tree:' + k])
                src_links = doc_links(self.cur_docs[texts[k]][0])
                if not ctx.law('C06.link-survives-formatting', [u for u, t_, o in got_links] == [u for u, t_ in src_links],
                               dict(info, note=k, links=got_links, document_links=src_links, graph='incremental')):
                    continue
                for (tgt, text, _), (u, orig) in zip(got_links, src_links):
                    t = resolve(tgt, k)
                    if t in cur_titles and cur_titles[t] is not None:
                        ctx.law('C06.title-refreshed-from-resolved-note', text == cur_titles[t], dict(info, note=k, target=t, text=text, expected=cur_titles[t], graph='incremental'))
                    else:
                        ctx.law('C06.text-kept-when-target-has-no-title', text == orig, dict(info, note=k, target=t, text=text, original=orig, graph='incremental'))
            # ---- C05 / H5: backlinks vs independent scan of the documents (fresh graph = what a restart would answer)
            self.backlink_laws(ctx, of, texts, info, 'fresh')
            self.backlink_laws(ctx, oi, texts, info, 'incremental')
            if key in (upd, oth) and step == 0: ctx.cover('update-existing')
            if any(of['block_refs_to:' + k] or of['inline_refs_to:' + k] for k in texts): ctx.cover('backlink-present')
        old_links = set(u for b in old_spec if len(b) > 1 for u in [b[1]])
        new_links = set(u for b in hist[0][1] if len(b) > 1 for u in [b[1]])
        if old_links - new_links: ctx.cover('backlink-removed-by-edit')
        if (('H',) in old_spec) != (('H',) in hist[0][1]): ctx.cover('title-changed')
        if self.tv_pick(ctx.trace):
            script, probes = self.native_scripts(jsonable_spec(ctx.input_desc), sorted(texts))
            exp = {k: (v if not k.startswith('content:') else (None if v is None else 'present')) for k, v in oi.items() if not k.startswith('search')}
            ctx.tv = {'script': script[0], 'expect': None, 'post': ('lib', sorted(texts), jsonable_cmp(exp))}
        return {'input': str(ctx.input_desc)[:300], 'arena_nodes': len(nodes_i), 'paths': str(oi['paths'])[:120]}

    def backlink_laws(self, ctx, obs, texts, info, which):
        exp_b, exp_i = {}, {}
        for k, tok in sorted(texts.items()):
            scan_links(self.cur_docs[tok][0], k, exp_b, exp_i, [0])
        for k in sorted(set(texts) | {'zz'}):
            ctx.law('C05.block-backlinks-exact', sorted(exp_b.get(k, ())) == obs['block_refs_to:' + k],
                    dict(info, target=k, expected=sorted(exp_b.get(k, ())), actual=obs['block_refs_to:' + k], graph=which))
            ctx.law('C05.inline-backlinks-exact', sorted(exp_i.get(k, ())) == obs['inline_refs_to:' + k],
                    dict(info, target=k, expected=sorted(exp_i.get(k, ())), actual=obs['inline_refs_to:' + k], graph=which))

    def tv_pick(self, trace):
        import zlib
        return zlib.crc32(repr(trace).encode()) % self.tv_every == self.tv_phase

    # ---- native replay: the same history through blocks (no text parser), same observations
    def native_script(self, state):
        """state: (texts, {tok: neutral doc}) -> driver script building the incremental graph is not possible without the
        text parser (update_key parses text), so replay renders each document to Markdown text"""
        raise NotImplementedError

    def native_scripts(self, d, keys):
        init = d['texts0']
        script = [{'op': 'import', 'state': {k + '.md': t for k, t in init.items()}}]
        texts = dict(init)
        for (key, spec), text in zip(d['history'], d['step_texts']):
            texts[key] = text
            script.append({'op': 'update', 'key': key, 'text': text})
        probes = []
        allk = sorted(set(texts) | {'zz'})
        for k in allk:
            probes += [{'op': 'block_refs_to', 'key': k}, {'op': 'inline_refs_to', 'key': k}, {'op': 'title', 'key': k}, {'op': 'metadata', 'key': k}, {'op': 'content', 'key': k}]
        probes += [{'op': 'paths'}, {'op': 'arena'}, {'op': 'keys'}]
        for k in sorted(texts):
            probes.append({'op': 'collect', 'key': k})
        fresh = [{'op': 'import', 'state': {k + '.md': t for k, t in texts.items()}}] + probes
        return (script + probes, fresh), (probes, texts)

    @staticmethod
    def named(res, texts):
        nt = len(texts)
        nodes, keys = res[-2 - nt], res[-1 - nt]
        om = ordinals(nodes, keys)
        out = {}
        i = len(res) - (5 * len(set(texts) | {'zz'}) + 3 + nt)
        for k in sorted(set(texts) | {'zz'}):
            out['block_refs_to:' + k] = sorted(name_id(x, nodes, om) for x in res[i]); i += 1
            out['inline_refs_to:' + k] = sorted(name_id(x, nodes, om) for x in res[i]); i += 1
            out['title:' + k] = res[i]; i += 1
            out['metadata:' + k] = res[i]; i += 1
            if k in texts:
                out['content:' + k] = None if res[i] is None else 'present'
            i += 1
        out['paths'] = sorted([name_id(x, nodes, om) for x in p] for p in res[i]); i += 3
        for k in sorted(texts):
            out['tree:' + k] = strip_ids(res[i]); i += 1
        return out, nodes, keys

    def tv_compare(self, tv, native_out):
        """translator validation: the executor's observations of the incremental graph == the native build's"""
        kind, keys, exp = tv['post']
        if any(isinstance(x, dict) and 'panic' in x for x in native_out):
            return False
        out, nodes, kk = self.named(native_out, {k: None for k in keys})
        if jsonable_cmp(out) != exp:
            import json
            e = json.loads(exp); o = json.loads(jsonable_cmp(out))
            tv['diff'] = {k: (e.get(k), o.get(k)) for k in o if e.get(k) != o.get(k)}
            return False
        return True

    def on_panic(self, ctx, ex, e, res):
        try:
            m = ctx.model() or {}
        except Exception:
            m = {}
        for pfx in ('C04', 'C12', 'C20', 'C03'):
            ctx.violations.append({'law': pfx + '.library-operations-do-not-panic', 'model': m,
                                   'info': {'msg': res['detail'], 'where': res.get('where'), 'input': getattr(ctx, 'input_desc', None)}})

    def finish_violation(self, ctx, v):
        v['role'] = self.role_of(v) if 'input' in v['info'] and isinstance(v['info']['input'], dict) and 'history' in v['info']['input'] else 'general'
        v['input_tree'] = jsonable_spec(ctx.input_desc) if getattr(ctx, 'input_desc', None) and 'texts0' in ctx.input_desc else None

    def role_of(self, v):
        law = v['law']
        info = v['info']
        if law.startswith('C04.incremental-equals-fresh'):
            obs = info.get('observation', '')
            specs = [s for (k, s) in info['input']['history']] + list(info['input']['initial'].values())
            if obs.startswith('title:'):
                return 'stale-title-after-heading-removed'
            if obs == 'paths':
                return 'paths-use-unfiltered-index'
            if any(b[0] == 'T' for s in specs for b in s):
                return 'index-stops-at-table'
        if law.startswith('C05.'):
            return 'general'
        return 'general'

    def replay(self, v, driver):
        d = v['input_tree']
        keys = sorted(set(d['texts0']) | {k for k, s in d['history']})
        (inc_s, fresh_s), (probes, texts) = self.native_scripts(d, keys)
        inc = driver.run(inc_s)
        fr = driver.run(fresh_s)
        v['replay_script'] = inc_s
        if any(isinstance(x, dict) and 'panic' in x for x in inc + fr):
            v['replay_verdict'] = 'native panic'
            v['replay_result'] = [x for x in inc + fr if isinstance(x, dict) and 'panic' in x][:1]
            return True
        oi, nodes_i, keys_i = self.named(inc, texts)
        of, nodes_f, keys_f = self.named(fr, texts)
        diffs = [k for k in of if jsonable_cmp(oi[k]) != jsonable_cmp(of[k])]
        v['replay_result'] = {'differences': diffs, 'incremental': {k: oi[k] for k in diffs}, 'fresh': {k: of[k] for k in diffs}}
        law = v['law']
        if law.endswith('.library-operations-do-not-panic'):
            # the lookups at a line are not part of the standard script: try the model's line and the first lines of every note
            line = (v.get('model') or {}).get('line', 0)
            for k in keys:
                for ln in [line] + list(range(0, 8)):
                    for scr in (inc_s, fresh_s):
                        r = driver.run(scr + [{'op': 'node_id_at', 'key': k, 'line': ln}])
                        if any(isinstance(x, dict) and 'panic' in x for x in r):
                            v['replay_verdict'] = 'native panic in get_node_id_at(%s, %d): %s' % (k, ln, [x for x in r if isinstance(x, dict) and 'panic' in x][0]['panic'][:80])
                            v['replay_script'] = scr + [{'op': 'node_id_at', 'key': k, 'line': ln}]
                            return True
            v['replay_verdict'] = 'no native panic'
            return False
        if law == 'C18.paths-after-edit-equal-fresh-start':
            v['replay_verdict'] = 'native incremental vs fresh differ on: %s' % diffs
            return 'paths' in diffs
        if law.startswith('C12.'):
            dead = [x for n_ in oi for x in (oi[n_] if n_.startswith(('block_refs_to', 'inline_refs_to')) else []) if x[0] in ('dead', 'orphan')]
            v['replay_verdict'] = 'native index answers dead ids: %s' % dead[:3]
            return bool(dead)
        if law.startswith('C06.'):
            v['replay_verdict'] = 'native incremental vs fresh differ on: %s' % diffs
            return any(k.startswith('tree:') or k.startswith('title:') for k in diffs)
        if law.startswith('C04.'):
            want = law.split(':', 1)[1]
            v['replay_verdict'] = 'native incremental vs fresh differ on: %s' % diffs
            if want == 'node_at_line':
                return self.replay_line(v, driver, inc_s, fresh_s, texts)
            return any(k.split(':')[0] == want for k in diffs)
        if law.startswith('C20.'):
            bad = check_ri(nodes_i, keys_i)
            v['replay_verdict'] = 'native RI problems: %s' % bad[:3]
            if law == 'C20.RI-preserved-by-update':
                return bool(bad)
            if law == 'C20.ids-never-reused':
                pre = driver.run(inc_s[:len(d['history'])] + [{'op': 'arena'}])[-1]
                reused = [i for i in range(min(len(pre), len(nodes_i))) if pre[i]['kind'] == 'Empty' and nodes_i[i]['kind'] != 'Empty']
                v['replay_verdict'] = 'native: ids reused %s, arena %d -> %d' % (reused, len(pre), len(nodes_i))
                return bool(reused) or len(nodes_i) < len(pre)
            return True
        if law == 'C01.front-matter-kept':
            k = v['info']['note']
            which = oi if v['info'].get('graph') == 'incremental' else of
            exp = v['info']['document'][0] if v['info']['document'] else None
            v['replay_verdict'] = 'native front-matter of %s: %r, document has %r' % (k, which['metadata:' + k], exp)
            return which['metadata:' + k] != exp
        if law.startswith('C05.'):
            tgt = v['info']['target']
            which = oi if v['info'].get('graph') == 'incremental' else of
            kind = 'block_refs_to:' if 'block' in law else 'inline_refs_to:'
            got = [list(x) for x in which[kind + tgt]]
            exp = [list(x) for x in v['info']['expected']]
            v['replay_verdict'] = 'native %s%s = %s, independent scan expects %s' % (kind, tgt, got, exp)
            return got != exp
        if law.startswith('C13.block-at-line'):
            k = v['info']['note']
            line = (v.get('model') or {}).get('line', 0)
            b = driver.run(fresh_s + [{'op': 'node_id_at', 'key': k, 'line': line}])
            of2, nf, kf = self.named(b[:-1], texts)
            got = None if b[-1] is None else name_id(b[-1], nf, ordinals(nf, kf))
            covering = [o for o, lr in v['info']['blocks'] if lr[0] <= line < lr[1]]
            exp = max(covering) if covering else None
            v['replay_verdict'] = 'native get_node_id_at(%s, %d) = %s; innermost block covering the line has ordinal %s' % (k, line, got, exp)
            return (got[1] if got else None) != exp
        return False

    def replay_line(self, v, driver, inc_s, fresh_s, texts):
        k = v['info']['observation'].split(':', 1)[1]
        line = (v.get('model') or {}).get('line', 0)
        lines = [line] + list(range(0, 12))
        for ln in lines:
            a = driver.run(inc_s + [{'op': 'node_id_at', 'key': k, 'line': ln}])
            b = driver.run(fresh_s + [{'op': 'node_id_at', 'key': k, 'line': ln}])
            oi, ni, ki = self.named(a[:-1], texts)
            of, nf, kf = self.named(b[:-1], texts)
            ra = None if a[-1] is None else name_id(a[-1], ni, ordinals(ni, ki))
            rb = None if b[-1] is None else name_id(b[-1], nf, ordinals(nf, kf))
            if jsonable_cmp(ra) != jsonable_cmp(rb):
                v['replay_verdict'] = 'native get_node_id_at(%s, %d): incremental %s, fresh %s' % (k, ln, ra, rb)
                return True
        v['replay_verdict'] = 'native get_node_id_at agrees on lines tried'
        return False

def doc_links(blocks):
    """(url, visible text) of every Regular internal link of a neutral document, in document order"""
    out = []
    def inl(xs):
        for i in xs:
            if i['k'] == 'Link' and not is_external(i['url']):
                out.append((i['url'], ''.join(c['t'] for c in i.get('c', []) if c['k'] == 'Str')))
            elif 'c' in i:
                inl(i['c'])
    def walk(bs):
        for b in bs:
            k = b['k']
            if k == 'Ref' and not is_external(b['url']):
                out.append((b['url'], b['t']))
            elif k in ('Para', 'Header'):
                inl(b.get('inl', []))
            elif k == 'Quote':
                walk(b['c'])
            elif k in ('Bullet', 'Ordered'):
                for it in b['items']:
                    walk(it)
    walk(blocks)
    return out

def tree_links(t):
    """(url/key, visible text, None) of every Regular link or reference in a collected tree"""
    out = []
    def inl(xs):
        for i in xs:
            if i.get('_v') == 'Link':
                f = i['_f']
                if f[2]['_v'] == 'Regular' and not is_external(f[0]):
                    out.append((f[0], h_doc.inl_text(f[3]), None))
            elif isinstance(i.get('_0'), list):
                inl(i['_0'])
    def walk(n):
        nd = n['node']
        if nd.get('_v') == 'Reference':
            r = nd['_0']
            if r['reference_type']['_v'] == 'Regular':
                out.append((r['key']['relative_path'], r['text'], None))
        elif nd.get('_v') in ('Section', 'Leaf'):
            inl(nd['_0'])
        for c in n['children']:
            walk(c)
    walk(t)
    return out

def jsonable_cmp(x):
    import json
    return json.dumps(x, sort_keys=True, default=str)

def jsonable_spec(d):
    return {'initial': {k: [list(b) for b in s] for k, s in d['initial'].items()}, 'history': [[k, [list(b) for b in s]] for k, s in d['history']],
            'texts0': d['texts0'], 'step_texts': d['step_texts']}

def render_neutral(blocks, indent=''):
    """Markdown text whose parse is this neutral document (same tokens); each production is witnessed natively by the
    translator validation (executor observations on the stubbed Document == native observations on the parsed text)"""
    out = []
    def inl(b):
        if 'inl' not in b:
            return b['t']
        parts = []
        for i in b['inl']:
            if i['k'] == 'Str': parts.append(i['t'])
            elif i['k'] == 'Link': parts.append('[x](%s)' % i['url'])
            elif i['k'] == 'Emph': parts.append('*[x](%s)*' % i['c'][0]['url'])
        return ''.join(parts)
    front = ''
    prev_kind = None
    last_k = None
    for b in blocks:
        k = b['k']
        if k == 'Meta':
            front = '---\n' + b['t'] + '---\n\n'
            continue
        if k == 'Blank':
            front = front + '\n'
            continue
        prev_kind, last_k = last_k, k
        if k == 'Header': out.append('#' * b.get('lv', 1) + ' ' + inl(b))
        elif k == 'Para': out.append(inl(b))
        elif k == 'Ref': out.append('[%s](%s)' % (b['t'], b['url']))
        elif k == 'Table': out.append('| %sh |\n|---|\n| %sc |' % (b['t'], b['t']))
        elif k == 'Code': out.append('```rs\n%s\n```' % b['t'])
        elif k == 'Rule': out.append('---')
        elif k == 'Quote': out.append('\n'.join('> ' + l for l in render_neutral(b['c']).rstrip('\n').split('\n')))
        elif k == 'Bullet':
            if prev_kind == 'Bullet':
                out.append('<!-- -->')          # an HTML block (dropped by the reader) keeps two adjacent lists apart
            items = []
            for it in b['items']:
                body = render_neutral(it).rstrip('\n').split('\n')
                items.append('\n'.join(('- ' if j == 0 else ('  ' if l else '')) + l for j, l in enumerate(body)))
            out.append('\n'.join(items))
    return front + '\n\n'.join(out) + '\n'


def natives_as_str(v):
    import natives
    return natives.as_str(v)

