import sys, time
from hlib import *
prog = program()
h = H(prog)
def run():
    ctx = Ctx(prog, [])
    ex = Exec(prog, ctx)
    g = ex.call('Graph::new', [])
    gref = Ref(Cell(g))
    key = h.key('d/a')
    blocks = h.vec([h.header(1, [h.istr('T0')], h.rng(0,1)), h.para([h.istr('T1')], h.rng(1,2)),
                    h.header(2, [h.istr('T2')], h.rng(2,3)), h.bullets([[h.plain([h.istr('T3')], h.rng(3,4))]]),
                    h.code('T4', 'rs', h.rng(4,6)), h.quote([h.para([h.istr('T5')], h.rng(7,8))], h.rng(7,8)),
                    h.para([h.ilink('b', 'x')], h.rng(9,10))])
    b = ex.call('Graph::build_key', [gref, Ref(Cell(key))])
    bref = Ref(Cell(b))
    sb = ex.call('SectionsBuilder::<\'_>::new', [bref, Ref(Cell(blocks)), Ref(Cell(key))])
    print(ctx.steps)
    tree = ex.call('<&Graph as GraphContext>::collect', [Ref(Cell(gref)), Ref(Cell(key))])
    print(ctx.steps)
    it = ex.call('Tree::iter', [Ref(Cell(tree))])
    blocks = ex.call("Projector::project::<TreeIter<'_>>", [it, Ref(Cell('d'))])
    print(ctx.steps)
    import pprint
    pprint.pprint(pyval(blocks), width=160)
    return ctx
    import pprint
    pprint.pprint(pyval(g.get('arena')), width=160)
    return ctx
t0=time.time()
try:
    run()
except Exception as e:
    import traceback; traceback.print_exc()
print(time.time()-t0)
