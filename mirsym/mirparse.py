"""Parser for rustc `-Zunpretty=mir` text (the subset rustc 1.97-nightly emits for liwe / iwes)."""
import re
from rsrc import split_top

INT_TYPES = {'u8': (8, False), 'u16': (16, False), 'u32': (32, False), 'u64': (64, False), 'u128': (128, False),
             'usize': (64, False), 'i8': (8, True), 'i16': (16, True), 'i32': (32, True), 'i64': (64, True),
             'i128': (128, True), 'isize': (64, True), 'char': (32, False)}

class MirFn:
    __slots__ = ('name', 'argc', 'arg_types', 'ret_type', 'local_types', 'blocks', 'raw', 'parsed', 'kind',
                 'closure_span', 'lineno', 'nstmts', '_arity')

    def __init__(self, name, raw, kind, lineno):
        self.name, self.raw, self.kind, self.lineno = name, raw, kind, lineno
        self.parsed = False
        self.closure_span = None
        self.nstmts = 0

HDR_FN = re.compile(r'^fn (.+?)\((_1: |\) -> )', re.M)

def split_items(text):
    """Yield (kind, name, header_line, body_text, lineno) for fn and promoted/const bodies."""
    lines = text.split('\n')
    i, n = 0, len(lines)
    while i < n:
        l = lines[i]
        if l.startswith('fn ') and l.endswith('{'):
            j = i + 1
            while lines[j] != '}':
                j += 1
            yield ('fn', l, '\n'.join(lines[i + 1:j]), i + 1)
            i = j + 1
        elif (l.startswith('const ') or l.startswith('static ')) and l.endswith('= {'):
            j = i + 1
            while lines[j] != '}':
                j += 1
            yield ('const', l, '\n'.join(lines[i + 1:j]), i + 1)
            i = j + 1
        else:
            i += 1

def parse_header(kind, hdr):
    if kind == 'fn':
        s = hdr[3:-2]                   # strip 'fn ' and ' {'
        m = re.search(r'\((_1: |\) -> )', s)
        name = s[:m.start()]
        rest = s[m.start():]
        # rest = "(_1: T, _2: U) -> RET"
        depth = 0
        for k, ch in enumerate(rest):
            if ch in '([{<':
                depth += 1
            elif ch in ')]}' or (ch == '>' and rest[k - 1] not in '-='):
                depth -= 1
                if depth == 0:
                    break
        args = rest[1:k]
        ret = rest[k + 1:].strip()
        assert ret.startswith('->'), hdr
        ret = ret[2:].strip()
        arg_types = []
        for a in split_top(args):
            am = re.match(r'_(\d+): (.*)', a, re.S)
            arg_types.append(am.group(2))
        return name, arg_types, ret
    else:
        s = hdr[:-4]
        s = s.split(' ', 1)[1]
        # NAME: TYPE
        depth = 0
        for k, ch in enumerate(s):
            if ch in '([{<':
                depth += 1
            elif ch in ')]}' or (ch == '>' and s[k - 1] not in '-='):
                depth -= 1
            elif ch == ':' and depth == 0 and s[k:k + 2] == ': ' and s[k - 1] != ':' :
                # first top-level ': ' that is not part of '::' and not inside <impl at f:l:c: l:c>
                break
        return s[:k], [], s[k + 2:]

# ------------------------------------------------------------------ places / operands
def _depth_scan(s):
    """yield (index, char, depth_before) treating -> and => arrows as non-brackets"""
    depth = 0
    for k, ch in enumerate(s):
        if ch in '([{<':
            yield k, ch, depth
            depth += 1
        elif ch in ')]}' or (ch == '>' and k > 0 and s[k - 1] not in '-='):
            depth -= 1
            yield k, ch, depth
        else:
            yield k, ch, depth

_place_cache = {}

def parse_place(s):
    s = s.strip()
    r = _place_cache.get(s)
    if r is None:
        r = _parse_place(s)
        _place_cache[s] = r
    return r

def _parse_place(s):
    m = re.fullmatch(r'_(\d+)', s)
    if m:
        return (int(m.group(1)), ())
    if s.endswith(']'):
        # index projection
        depth = 0
        for k in range(len(s) - 1, -1, -1):
            if s[k] == ']':
                depth += 1
            elif s[k] == '[':
                depth -= 1
                if depth == 0:
                    break
        base = parse_place(s[:k])
        idx = s[k + 1:-1]
        m = re.fullmatch(r'_(\d+)', idx)
        if m:
            return (base[0], base[1] + (('index', int(m.group(1))),))
        m = re.fullmatch(r'(-?)(\d+) of (\d+)', idx)
        if m:
            return (base[0], base[1] + (('cindex', int(m.group(2)), bool(m.group(1))),))
        m = re.fullmatch(r'(\d+):(-?)(\d*)', idx)
        if m:
            return (base[0], base[1] + (('subslice', int(m.group(1)), int(m.group(3) or 0), bool(m.group(2))),))
        raise ValueError('index? ' + s)
    if s.startswith('(*') and s.endswith(')'):
        base = parse_place(s[2:-1])
        return (base[0], base[1] + (('deref',),))
    if s.startswith('(') and s.endswith(')'):
        inner = s[1:-1]
        # field: first top-level ".N: "
        for k, ch, d in _depth_scan(inner):
            if d == 0 and ch == '.':
                m = re.match(r'\.(\d+): ', inner[k:])
                if m:
                    base = parse_place(inner[:k])
                    ty = inner[k + m.end():]
                    return (base[0], base[1] + (('field', int(m.group(1)), ty),))
        k = inner.rfind(' as ')
        if k > 0:
            base = parse_place(inner[:k])
            return (base[0], base[1] + (('downcast', inner[k + 4:].strip()),))
    raise ValueError('place? ' + s)

def parse_const(c):
    c = c.strip()
    m = re.fullmatch(r'(-?\d+)_(u8|u16|u32|u64|u128|usize|i8|i16|i32|i64|i128|isize)', c)
    if m:
        return ('int', int(m.group(1)), m.group(2))
    if c == 'true':
        return ('bool', True)
    if c == 'false':
        return ('bool', False)
    if c == '()':
        return ('unit',)
    if c.startswith('"') and c.endswith('"'):
        return ('str', unescape(c[1:-1]))
    if c.startswith("'") and c.endswith("'"):
        s = unescape(c[1:-1])
        return ('int', ord(s), 'char')
    if c.startswith('ZeroSized: '):
        return ('zst', c[len('ZeroSized: '):])
    m = re.fullmatch(r'(.+)::promoted\[(\d+)\]', c)
    if m:
        return ('promoted', int(m.group(2)))
    m = re.fullmatch(r'(-?[\d.]+(?:[eE][+-]?\d+)?)(f32|f64)', c)
    if m:
        return ('float', float(m.group(1)))
    m = re.fullmatch(r'b"(.*)"', c)
    if m:
        return ('bytes', unescape(m.group(1)).encode('latin1'))
    return ('other', c)

def unescape(s):
    out = []
    i = 0
    while i < len(s):
        ch = s[i]
        if ch == '\\' and i + 1 < len(s):
            nx = s[i + 1]
            if nx == 'n': out.append('\n'); i += 2
            elif nx == 't': out.append('\t'); i += 2
            elif nx == 'r': out.append('\r'); i += 2
            elif nx == '0': out.append('\0'); i += 2
            elif nx == '\\': out.append('\\'); i += 2
            elif nx == '"': out.append('"'); i += 2
            elif nx == "'": out.append("'"); i += 2
            elif nx == 'u':
                j = s.index('}', i)
                out.append(chr(int(s[i + 3:j], 16))); i = j + 1
            elif nx == 'x':
                out.append(chr(int(s[i + 2:i + 4], 16))); i += 4
            else:
                out.append(ch); i += 1
        else:
            out.append(ch); i += 1
    return ''.join(out)

def parse_operand(o):
    o = o.strip()
    if o.startswith('copy '):
        return ('copy', parse_place(o[5:]))
    if o.startswith('move '):
        return ('move', parse_place(o[5:]))
    if o.startswith('const '):
        return ('const', parse_const(o[6:]))
    if re.match(r'[\w<]', o):
        return ('const', ('fnitem', o))
    raise ValueError('operand? ' + o)

BINOPS = {'Add', 'Sub', 'Mul', 'Div', 'Rem', 'BitXor', 'BitAnd', 'BitOr', 'Shl', 'Shr', 'Eq', 'Lt', 'Le', 'Ne', 'Ge', 'Gt',
          'Offset', 'Cmp', 'AddUnchecked', 'SubUnchecked', 'MulUnchecked', 'ShlUnchecked', 'ShrUnchecked'}
OVFOPS = {'AddWithOverflow': 'Add', 'SubWithOverflow': 'Sub', 'MulWithOverflow': 'Mul'}
UNOPS = {'Not', 'Neg', 'PtrMetadata'}

def strip_generics(path):
    """remove ::<...> turbofish groups and <...> generic args from a type path"""
    out = []
    depth = 0
    i = 0
    while i < len(path):
        ch = path[i]
        if ch == '<':
            depth += 1
        elif ch == '>' and (i == 0 or path[i - 1] not in '-='):
            depth -= 1
        elif depth == 0:
            out.append(ch)
        i += 1
    s = ''.join(out)
    s = re.sub(r'::(?=::)', '', s)
    s = s.replace('::::', '::')
    while s.endswith('::'):
        s = s[:-2]
    return s

def parse_rvalue(r, fn):
    r = r.strip()
    if r.startswith('no_retag '):
        r = r[9:]
    if r.startswith('&raw const '):
        return ('ref', parse_place(r[11:]), False)
    if r.startswith('&raw mut '):
        return ('ref', parse_place(r[9:]), True)
    if r.startswith('&mut '):
        return ('ref', parse_place(r[5:]), True)
    if r.startswith('&fake shallow '):
        return ('ref', parse_place(r[14:]), False)
    if r.startswith('&'):
        return ('ref', parse_place(r[1:]), False)
    m = re.match(r'(\w+)\((.*)\)$', r, re.S)
    if m and not r.startswith(('copy ', 'move ', 'const ')):
        op = m.group(1)
        if op in BINOPS:
            a, b = [parse_operand(x) for x in split_top(m.group(2))]
            return ('bin', op, a, b, operand_type(a, fn) or operand_type(b, fn))
        if op in OVFOPS:
            a, b = [parse_operand(x) for x in split_top(m.group(2))]
            return ('ovf', OVFOPS[op], a, b, operand_type(a, fn) or operand_type(b, fn))
        if op in UNOPS:
            a = parse_operand(m.group(2))
            return ('un', op, a, operand_type(a, fn))
        if op == 'discriminant':
            return ('disc', parse_place(m.group(2)))
        if op == 'Len':
            return ('len', parse_place(m.group(2)))
        if op == 'CopyForDeref' :
            return ('use', ('copy', parse_place(m.group(2))))
    if r.startswith('deref_copy '):
        return ('use', ('copy', parse_place(r[11:])))
    if r.startswith(('copy ', 'move ', 'const ')):
        # possibly a cast: "<operand> as TYPE (Kind)"
        m = re.match(r'(.*) as (.*) \(([A-Za-z]+(?:\(.*\))?)\)$', r, re.S)
        if m and _balanced(m.group(1)):
            opnd = parse_operand(m.group(1))
            return ('cast', opnd, m.group(2), m.group(3), operand_type(opnd, fn))
        return ('use', parse_operand(r))
    if r.startswith('(') and r.endswith(')'):
        inner = r[1:-1].strip()
        if inner.endswith(','):
            inner = inner[:-1]
        return ('tuple', [parse_operand(x) for x in split_top(inner)] if inner else [])
    if r.startswith('[') and r.endswith(']'):
        inner = r[1:-1]
        parts = split_top(inner, ';')
        if len(parts) == 2:
            return ('repeat', parse_operand(parts[0]), parts[1].strip())
        return ('array', [parse_operand(x) for x in split_top(inner)] if inner.strip() else [])
    if r.startswith('{closure@') or r.startswith('{coroutine@'):
        k = r.index('}')
        span = r[1:k]
        rest = r[k + 1:].strip()
        ops = []
        if rest.startswith('{'):
            for f in split_top(rest[1:-1].strip()):
                fname, v = f.split(': ', 1)
                ops.append(parse_operand(v))
        return ('closure', span, ops)
    # ADT aggregates: Path { f: v, ... } | Path(args) | Path
    if r.endswith('}'):
        k = _top_level_find(r, ' {')
        path = r[:k]
        body = r[k + 2:-1].strip()
        names, ops = [], []
        for f in split_top(body):
            fname, v = f.split(': ', 1)
            names.append(fname.strip()); ops.append(parse_operand(v))
        return ('adt', strip_generics(path), names, ops)
    if r.endswith(')'):
        k = _top_level_find(r, '(')
        path = r[:k]
        inner = r[k + 1:-1]
        return ('adt', strip_generics(path), None, [parse_operand(x) for x in split_top(inner)] if inner.strip() else [])
    if re.fullmatch(r'[\w:<>\', &\[\]()]+', r):
        return ('adt', strip_generics(r), None, [])
    raise ValueError('rvalue? ' + r)

def _balanced(s):
    d = 0
    for _, ch, depth in _depth_scan(s):
        d = depth
    return s.count('(') == s.count(')')

def _top_level_find(s, tok):
    for k, ch, d in _depth_scan(s):
        if d == 0 and s.startswith(tok, k):
            return k
    raise ValueError('no top-level %r in %r' % (tok, s))

def place_type(place, fn):
    local, projs = place
    ty = fn.local_types.get(local)
    for p in projs:
        if p[0] == 'field':
            ty = p[2]
        elif p[0] == 'deref':
            if ty is None:
                return None
            ty = ty.strip()
            if ty.startswith('&'):
                ty = re.sub(r"^&('\w+ )?(mut )?", '', ty)
            elif ty.startswith('Box<') or ty.startswith('std::boxed::Box<'):
                ty = ty[ty.index('<') + 1:-1]
            elif ty.startswith('*const ') or ty.startswith('*mut '):
                ty = ty.split(' ', 1)[1]
            else:
                return None
        elif p[0] == 'downcast':
            pass
        elif p[0] in ('index', 'cindex'):
            if ty is None:
                return None
            m = re.match(r'\[(.*?)(; .*)?\]$', ty.strip())
            ty = m.group(1) if m else None
        else:
            return None
    return ty

def operand_type(op, fn):
    if op[0] == 'const':
        c = op[1]
        if c[0] == 'int':
            return c[2]
        if c[0] == 'bool':
            return 'bool'
        return None
    return place_type(op[1], fn)

RE_LET = re.compile(r'^\s+let (?:mut )?_(\d+): (.+);$')
RE_BB = re.compile(r'^    bb(\d+)(?: \(cleanup\))?: \{$')

def parse_body(fn, ttable=None):
    if fn.parsed:
        return fn
    name, arg_types, ret = parse_header(fn.kind, fn.raw[0])
    fn.arg_types, fn.ret_type, fn.argc = arg_types, ret, len(arg_types)
    fn.local_types = {0: ret}
    for i, t in enumerate(arg_types):
        fn.local_types[i + 1] = t
    fn.blocks = {}
    cur = None
    for l in fn.raw[1].split('\n'):
        m = RE_LET.match(l)
        if m:
            fn.local_types[int(m.group(1))] = m.group(2)
            continue
        m = RE_BB.match(l)
        if m:
            cur = []
            fn.blocks[int(m.group(1))] = cur
            continue
        if cur is not None:
            s = l.strip()
            if s == '}':
                cur = None
            elif s:
                cur.append(s)
    for bb, lines in fn.blocks.items():
        stmts = []
        for s in lines[:-1]:
            st = parse_stmt(s, fn)
            if st is not None:
                stmts.append(st)
        term = parse_term(lines[-1], fn)
        fn.blocks[bb] = (stmts, term)
        fn.nstmts += len(stmts) + 1
    fn.parsed = True
    return fn

SKIP = ('StorageLive', 'StorageDead', 'nop', 'FakeRead', 'PlaceMention', 'Retag', 'AscribeUserType', 'Coverage',
        'ConstEvalCounter', 'BackwardIncompatibleDropHint')

def parse_stmt(s, fn):
    assert s.endswith(';'), s
    s = s[:-1]
    if s.startswith(SKIP):
        return None
    m = re.match(r'discriminant\((.+)\) = (\d+)$', s)
    if m:
        return ('setdisc', parse_place(m.group(1)), int(m.group(2)))
    if s.startswith('assume(') or s.startswith('Deinit('):
        return None
    k = s.index(' = ')
    return ('assign', parse_place(s[:k]), parse_rvalue(s[k + 3:], fn))

def parse_term(s, fn):
    assert s.endswith(';'), s
    s = s[:-1]
    if s == 'return':
        return ('return',)
    if s == 'unreachable':
        return ('unreachable',)
    if s in ('resume', 'terminate(cleanup)', 'terminate(abi)') or s.startswith('terminate'):
        return ('resume',)
    m = re.fullmatch(r'goto -> bb(\d+)', s)
    if m:
        return ('goto', int(m.group(1)))
    m = re.fullmatch(r'drop\((.+)\) -> \[return: bb(\d+), .*\]', s)
    if m:
        return ('drop', parse_place(m.group(1)), int(m.group(2)))
    m = re.fullmatch(r'switchInt\((.+?)\) -> \[(.+)\]', s)
    if m:
        op = parse_operand(m.group(1))
        targets, otherwise = {}, None
        for t in split_top(m.group(2)):
            k, b = t.rsplit(': bb', 1)
            if k == 'otherwise':
                otherwise = int(b)
            else:
                targets[int(k)] = int(b)
        return ('switch', op, targets, otherwise, operand_type(op, fn))
    m = re.fullmatch(r'assert\((!?)(.+?), "(.*?)"(.*)\) -> \[success: bb(\d+), .*\]', s)
    if m:
        return ('assert', parse_operand(m.group(2)), not m.group(1), m.group(3), int(m.group(5)))
    if s.startswith('falseEdge') or s.startswith('falseUnwind'):
        m = re.search(r'\[real: bb(\d+)', s)
        return ('goto', int(m.group(1)))
    # call:  DEST = CALLEE(ARGS) -> [return: bbN, unwind ...]   |   DEST = CALLEE(ARGS) -> unwind ...
    k = s.index(' = ')
    dest = parse_place(s[:k])
    rest = s[k + 3:]
    a = rest.rfind(') -> ')
    tail = rest[a + 5:]
    head = rest[:a + 1]
    m = re.search(r'return: bb(\d+)', tail)
    ret_bb = int(m.group(1)) if m else None
    # split callee / args: the args are the last balanced (...) group
    depth = 0
    for j in range(len(head) - 1, -1, -1):
        ch = head[j]
        if ch == ')':
            depth += 1
        elif ch == '(':
            depth -= 1
            if depth == 0:
                break
    callee = head[:j]
    args = head[j + 1:-1]
    ops = [parse_operand(x) for x in split_top(args)] if args.strip() else []
    return ('call', dest, callee, ops, ret_bb)

def load(path):
    text = open(path).read()
    fns = {}
    for kind, hdr, body, lineno in split_items(text):
        try:
            name, _, _ = parse_header(kind, hdr)
        except Exception as e:
            continue
        f = MirFn(name, (hdr, body), kind, lineno)
        if kind == 'fn' and '{closure#' in name.rsplit('::', 1)[-1]:
            m = re.search(r'\(_1: (?:&(?:\'\w+ )?(?:mut )?)?\{closure@([^}]+)\}', hdr)
            if m:
                f.closure_span = 'closure@' + m.group(1)
        fns[name] = f
    return fns

if __name__ == '__main__':
    import sys, time
    t0 = time.time()
    fns = load(sys.argv[1])
    print(len(fns), 'items', time.time() - t0)
    bad = 0
    for f in fns.values():
        try:
            parse_body(f)
        except Exception as e:
            bad += 1
            if bad < 15:
                print('FAIL', f.name[:80], '|', repr(e)[:200])
    print('parsed', len(fns) - bad, 'failed', bad, time.time() - t0)
