"""Check runner: MIR regeneration, harness exploration, native replay, known findings, evidence."""
import os, sys, json, time, subprocess, argparse, hashlib

HERE = os.path.dirname(os.path.abspath(__file__))
VERIF = os.path.dirname(HERE)
sys.path.insert(0, HERE)
REPO = os.environ.get('VERIF_REPO', '/repo')

import mirdump

class Driver:
    """native replay driver (real liwe crate, path dependency on /repo)"""
    def __init__(self):
        self.dir = os.path.join(VERIF, 'replay')
        if REPO != '/repo':
            # relocated run (seed matrix in a scratch worktree): private copy of the driver crate pointing at that tree
            self.dir = os.path.join(os.environ.get('VERIF_CACHE') or os.path.join(VERIF, '.cache'), 'replay')
            os.makedirs(os.path.join(self.dir, 'src'), exist_ok=True)
            for f in ('Cargo.lock', os.path.join('src', 'main.rs')):
                s = open(os.path.join(VERIF, 'replay', f)).read()
                if not os.path.exists(os.path.join(self.dir, f)) or open(os.path.join(self.dir, f)).read() != s:
                    open(os.path.join(self.dir, f), 'w').write(s)
            t = open(os.path.join(VERIF, 'replay', 'Cargo.toml')).read().replace('/repo/', REPO.rstrip('/') + '/')
            if not os.path.exists(os.path.join(self.dir, 'Cargo.toml')) or open(os.path.join(self.dir, 'Cargo.toml')).read() != t:
                open(os.path.join(self.dir, 'Cargo.toml'), 'w').write(t)
        self.bin = os.path.join(self.dir, 'target', 'debug', 'iwe-replay')
        self.built = False
        self.calls = 0

    def build(self):
        if self.built:
            return
        env = dict(os.environ, CARGO_NET_OFFLINE='true')
        p = subprocess.run(['cargo', 'build', '--offline', '--quiet'], cwd=self.dir, env=env,
                           stdout=subprocess.PIPE, stderr=subprocess.PIPE, text=True)
        if p.returncode != 0:
            sys.stderr.write(p.stderr[-3000:])
            raise SystemExit(2)
        self.built = True

    def run_many(self, scripts, timeout=600):
        """one native process per chunk of scripts, chunks in parallel; a chunk that does not finish is re-run script by
        script, and a script that still does not finish is answered [{'timeout': True}] (callers skip it)"""
        self.build()
        if not scripts:
            return []
        if len(scripts) == 1:
            return [self._run_chunk(scripts, timeout, single=True)[0]]
        import concurrent.futures
        n = 20
        chunks = [scripts[i:i + n] for i in range(0, len(scripts), n)]
        workers = min(8, max(1, (os.cpu_count() or 4) // 2))
        with concurrent.futures.ThreadPoolExecutor(workers) as pool:
            outs = list(pool.map(lambda ch: self._run_chunk(ch, timeout), chunks))
        return [o for ch in outs for o in ch]

    def _run_chunk(self, scripts, timeout, single=False):
        inp = '\n'.join(json.dumps(s) for s in scripts) + '\n'
        try:
            p = subprocess.run([self.bin], input=inp, stdout=subprocess.PIPE, stderr=subprocess.PIPE, text=True, timeout=timeout)
        except subprocess.TimeoutExpired:
            if single or len(scripts) == 1:
                return [[{'crash': 'native run did not terminate within %ds' % timeout}]] if single else [[{'timeout': True}]]
            return [self._run_chunk([s_], 120)[0] for s_ in scripts]
        if p.returncode != 0 and len(scripts) == 1:
            return [[{'crash': 'native run died with status %d: %s' % (p.returncode, p.stderr[-200:])}]]
        self.calls += len(scripts)
        outs = [json.loads(l) for l in p.stdout.split('\n') if l.strip()]
        if len(outs) != len(scripts):
            if len(scripts) > 1:
                return [self._run_chunk([s_], 120)[0] for s_ in scripts]
            raise RuntimeError('driver produced %d results for %d scripts: %s' % (len(outs), len(scripts), p.stderr[-500:]))
        return outs

    def run(self, script, timeout=600):
        return self.run_many([script], timeout=timeout)[0]

def load_known():
    p = os.path.join(VERIF, 'known_findings.json')
    if not os.path.exists(p):
        return []
    return json.load(open(p)).get('findings', [])

def jsonable(x, depth=0):
    import z3
    if depth > 12:
        return '...'
    if isinstance(x, dict):
        return {str(k): jsonable(v, depth + 1) for k, v in x.items()}
    if isinstance(x, (list, tuple, set)):
        return [jsonable(v, depth + 1) for v in x]
    if isinstance(x, (str, int, float, bool)) or x is None:
        return x
    return str(x)

def run_check(pid, tier, seed, harness_specs, level_note, args):
    """harness_specs: list of (factory(prog, tier) -> harness, time_limit_s)"""
    import explore
    from hlib import program
    t0 = time.time()
    crates = sorted({c for spec in harness_specs if 'kani' not in spec for c in spec.get('crates', ('liwe',))})
    mir_files = []
    for c in crates:
        f, regenerated = mirdump.dump(c, deps=('liwe',) if c != 'liwe' else ())
        mir_files.append(f)
    prog = program(mir_files=tuple(mir_files), crates=tuple('crates/' + c for c in crates), repo=REPO)
    driver = Driver()
    driver.build()
    known = [k for k in load_known() if k['property'] == pid]
    known_hit = {}
    new_violations = []
    unconfirmed = []
    broken = []
    ev_h = []
    total = dict(paths=0, steps=0, queries=0, solver_s=0.0, obligations=0, smt=0, tv=0, tv_bad=0, distinct=0)
    samples = []
    fn_stmts = {}
    natives_hit = set()
    exhaustive = True
    kani_results = []
    for spec in [s for s in harness_specs if 'kani' in s]:
        import kani_check
        res = kani_check.run(spec['kani'], cap_s=spec.get('cap_s', {}).get(tier, 600))
        kani_results += res
        for k in res:
            if k['status'] == 'FAILED':
                rp = os.path.join(os.environ.get('VERIF_EVIDENCE_DIR') or os.path.join(VERIF, 'evidence'), 'replays', '%s-kani-%s.json' % (pid, k['harness']))
                os.makedirs(os.path.dirname(rp), exist_ok=True)
                json.dump({'property': pid, 'engine': 'kani', 'harness': k['harness'], 'failed_checks': k.get('failed_checks'),
                           'how_to_replay': 'python3-vt mirsym/kani_check.py ' + k['harness'] + '  (harness source: /verif/kani/*.rs, real compiled code)'}, open(rp, 'w'), indent=1)
                new_violations.append((pid + '.kani:' + k['harness'], 'general', rp, 1))
            elif k['status'] != 'SUCCESSFUL':
                print('NOTE: kani harness %s inconclusive (%s); not counted either way' % (k['harness'], k.get('why', 'see evidence')))
            elif k.get('covers') and not all(c == 'SATISFIED' for c in k['covers']):
                broken.append('kani harness %s: cover goal not reachable (vacuous)' % k['harness'])
    for spec in [s for s in harness_specs if 'kani' not in s]:
        hz = spec['make'](prog, tier)
        if hasattr(hz, 'tv_phase'):
            if os.environ.get('VERIF_TV_ALL'):
                hz.tv_every = 1     # validate every completed path against the native build (development aid)
            hz.tv_phase = seed % hz.tv_every
        S = explore.explore(hz, workers=args.workers, time_limit=max(20, int(spec.get('time_limit', {}).get(tier, 600) * float(os.environ.get('VERIF_TIME_SCALE', '1') or 1))), seed=seed)
        total['paths'] += S.paths; total['steps'] += S.steps; total['queries'] += S.queries; total['solver_s'] += S.solver_s
        total['obligations'] += S.obligations; total['smt'] += S.smt_obligations
        for k, v in S.fn_stmts.items():
            fn_stmts[k] = fn_stmts.get(k, 0) + v
        natives_hit |= S.natives
        if S.incomplete:
            exhaustive = False
        # ---- health of the harness itself
        ok_paths = S.by_status.get('ok', 0)
        if ok_paths == 0:
            broken.append('%s: no completed path' % hz.name)
        if S.engine_errors:
            broken.append('%s: engine errors: %s' % (hz.name, S.engine_errors[0][:300]))
        if S.bound_hits:
            broken.append('%s: bound exceeded (unwinding assertion): %s' % (hz.name, S.bound_hits[0]))
        missing = [c for c in hz.required_covers if c not in S.covers]
        if missing and not S.incomplete:
            broken.append('%s: cover goals not reached (vacuity guard): %s' % (hz.name, missing))
        unsup = sum(S.unsupported.values())
        if unsup and unsup > 0.2 * S.paths:
            broken.append('%s: %d of %d paths inconclusive (unsupported): %s' % (hz.name, unsup, S.paths, list(S.unsupported)[:3]))
        # ---- translator validation against the native build
        tvs = S.tv[:spec.get('tv_max', 400) if not os.environ.get('VERIF_TV_ALL') else 10**9]
        tv_bad_examples = []
        if tvs:
            outs = driver.run_many([t['script'] for t in tvs])
            for t, o in zip(tvs, outs):
                if o and isinstance(o[0], dict) and o[0].get('timeout'):
                    total['tv_skipped'] = total.get('tv_skipped', 0) + 1        # the native run of this sample did not finish in time: not validated, not counted
                    continue
                total['tv'] += 1
                exp = t['expect']
                if t.get('post') is not None:
                    same = hz.tv_compare(t, o)
                else:
                    same = all(e is None or e == a for e, a in zip(exp, o)) and len(exp) == len(o)
                if not same:
                    total['tv_bad'] += 1
                    if len(tv_bad_examples) < 3:
                        tv_bad_examples.append({'diff': t.get('diff'), 'script': t['script'], 'expected': exp, 'native': o})
            if tv_bad_examples:
                broken.append('%s: translator validation mismatch (executor vs native build): %s' % (hz.name, json.dumps(jsonable(tv_bad_examples[0]))[:1500]))
        # ---- violations: group by (law, role), replay a few of each natively
        groups = {}
        for v in S.violations:
            if not v['law'].startswith(pid + '.'):
                continue        # laws of other properties are reported by their own check
            groups.setdefault((v['law'], v.get('role', 'general')), []).append(v)
        vsummary = []
        for (law, role), vs in sorted(groups.items()):
            kf = next((k for k in known if (k.get('law') == law or law in (k.get('laws') or [])) and k.get('role') == role and k.get('harness', hz.name) == hz.name), None) if role != 'general' else None
            confirmed = None
            rep_paths = []
            for v in vs[:3]:
                try:
                    okr = hz.replay(v, driver)
                except Exception as e:
                    okr = False
                    v['replay_verdict'] = 'replay error: %r' % (e,)
                rp = os.path.join(os.environ.get('VERIF_EVIDENCE_DIR') or os.path.join(VERIF, 'evidence'), 'replays', '%s-%s-%s.json' % (pid, hz.name, hashlib.md5((law + role + json.dumps(jsonable(v.get('input_tree')))).encode()).hexdigest()[:10]))
                os.makedirs(os.path.dirname(rp), exist_ok=True)
                json.dump(jsonable({'property': pid, 'harness': hz.name, 'law': law, 'role': role, 'model': v.get('model'), 'info': v.get('info'),
                                    'decisions': v.get('trace'), 'script': v.get('replay_script'), 'native_result': v.get('replay_result'),
                                    'verdict': v.get('replay_verdict'), 'confirmed_natively': bool(okr)}), open(rp, 'w'), indent=1)
                rep_paths.append(rp)
                if okr:
                    confirmed = rp
                    break
            vsummary.append({'law': law, 'role': role, 'paths': len(vs), 'confirmed': bool(confirmed), 'known': bool(kf), 'example': jsonable(vs[0].get('info'))})
            if kf is not None:
                if confirmed:
                    known_hit[(law, role)] = kf
                continue
            if confirmed:
                new_violations.append((law, role, confirmed, len(vs)))
            else:
                unconfirmed.append((law, role, rep_paths[:1], vs[0].get('replay_verdict')))
        ev_h.append({'harness': hz.name, 'bounds': hz.bounds, 'paths': S.paths, 'by_status': S.by_status, 'covers': sorted(S.covers),
                     'obligations': S.obligations, 'smt_obligations': S.smt_obligations, 'z3_queries': S.queries,
                     'solver_s': round(S.solver_s, 2), 'mir_statements_executed': S.steps, 'wall_s': round(S.wall, 1),
                     'exhaustive_within_bounds': not S.incomplete, 'unsupported': S.unsupported, 'panics': S.panics,
                     'violations': vsummary, 'real_functions': list(hz.real_functions), 'path_conditions': S.pcs,
                     'translator_validation': {'paths_compared': len(tvs)}})
        samples.extend(sorted(S.samples, key=lambda x: -len(str(x)))[:3])
    # ---- verdict
    printed = set()
    for (law, role), kf in sorted(known_hit.items()):
        if kf['what'] in printed:
            continue
        printed.add(kf['what'])
        print('KNOWN-FINDING: property=%s %s [%s / %s]' % (pid, kf['what'], law, role))
    rc = 0
    for law, role, rp, n in new_violations:
        print('VIOLATION property=%s replay=%s' % (pid, rp))
        print('  law=%s role=%s paths=%d' % (law, role, n))
        rc = 1
    if rc == 0 and unconfirmed:
        for law, role, rps, verdict in unconfirmed:
            print('INCONCLUSIVE: counterexample for %s [%s] did not reproduce natively (%s) %s' % (law, role, verdict, rps))
        rc = 2
    if rc == 0 and broken:
        for b in broken:
            print('BROKEN: ' + b)
        rc = 2
    top_fns = sorted(fn_stmts.items(), key=lambda kv: -kv[1])
    ev = {
        'property_id': pid, 'tier': tier, 'seed': seed, 'level': 'model_checking',
        'coverage': {
            'states': total['paths'], 'transitions': total['steps'],
            'traces_validated_against_impl': total['tv'] - total['tv_bad'],
            'samples': jsonable(samples[:6]) or ['(none)'],
            'exhaustive': bool(exhaustive),
            'explanation': 'states = symbolic paths explored to completion over the real MIR (each path = all inputs satisfying its path condition); '
                           'transitions = MIR statements executed; obligations = laws checked on paths (smt_obligations needed a z3 query, the rest '
                           'were decided by evaluation on the path); traces_validated = paths whose executor result equals the native build byte for byte',
            'obligations': total['obligations'], 'smt_obligations': total['smt'], 'z3_queries': total['queries'], 'solver_s': round(total['solver_s'], 2),
            'functions_executed_from_mir': len(fn_stmts), 'top_functions': [[k, v] for k, v in top_fns[:25]],
            'trusted_base': sorted(natives_hit), 'harnesses': jsonable(ev_h),
            'known_findings_hit': [k['what'] for k in known_hit.values()],
            'kani_cross_check': kani_results,
        },
        'assumptions': level_note,
        'wall_s': round(time.time() - t0, 1),
        'violations': len(new_violations),
    }
    evdir = os.environ.get('VERIF_EVIDENCE_DIR') or os.path.join(VERIF, 'evidence')
    os.makedirs(evdir, exist_ok=True)
    json.dump(ev, open(os.path.join(evdir, pid + '.json'), 'w'), indent=1)
    print('check %s tier=%s: paths=%d obligations=%d z3_queries=%d tv=%d/%d wall=%.0fs exit=%d' % (
        pid, tier, total['paths'], total['obligations'], total['queries'], total['tv'] - total['tv_bad'], total['tv'], time.time() - t0, rc))
    return rc
