import sys, time
from hlib import *
import explore, h_doc
prog = program()
hz = h_doc.DocHarness(prog, 'quick', budget=int(sys.argv[1]) if len(sys.argv)>1 else 3)
S = explore.explore(hz, workers=16, time_limit=600)
print('paths', S.paths, S.by_status, 'wall %.1f' % S.wall, 'steps', S.steps, 'queries', S.queries, 'solver_s %.1f' % S.solver_s)
print('obligations', S.obligations, S.smt_obligations, 'covers', sorted(S.covers))
print('unsupported', S.unsupported)
print('panics', S.panics)
print('bound', S.bound_hits[:3], 'errors', S.engine_errors[:2])
viol = {}
for v in S.violations:
    viol.setdefault((v['law'], v.get('role')), []).append(v)
for k, vs in viol.items():
    print('VIOL', k, len(vs), vs[0]['info'], vs[0]['model'])
print(S.samples[:2])
