import sys, time
from hlib import *
import explore, props
import mirdump, os; f1 = mirdump.dump("liwe")[0]; f2 = mirdump.dump("iwes", deps=("liwe",))[0]; prog = program(mir_files=(f1, f2), crates=("crates/liwe","crates/iwes"), repo=os.environ.get("VERIF_REPO", "/repo"))
hz = eval('props.' + sys.argv[1])(prog, sys.argv[2] if len(sys.argv)>2 else 'quick')
S = explore.explore(hz, workers=16, time_limit=int(sys.argv[3]) if len(sys.argv)>3 else 900)
print('paths', S.paths, S.by_status, 'wall %.1f' % S.wall, 'steps', S.steps, 'queries', S.queries, 'solver_s %.1f' % S.solver_s, 'incomplete', S.incomplete)
print('obligations', S.obligations, S.smt_obligations, 'covers', sorted(S.covers))
print('unsupported', S.unsupported); print('panics', S.panics); print('bound', S.bound_hits[:3], 'errors', S.engine_errors[:2])
viol = {}
for v in S.violations:
    viol.setdefault((v['law'], v.get('role')), []).append(v)
for k, vs in viol.items():
    print('VIOL', k, len(vs), str(vs[0]['info'])[:300], vs[0]['model'])
