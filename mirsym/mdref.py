"""Reference reader for the sub-language of Markdown the iwe writer emits: the CommonMark block-structure algorithm (spec 0.31,
appendix "A parsing strategy", phase 1) for block quotes, bullet and ordered lists, ATX / setext headings, thematic breaks,
fenced and indented code, paragraphs with lazy continuation.  It is the oracle of the rendering laws: the real writer's output
must read back as the tree that was written.  It is kept honest by translator validation: for sampled (or all) explored paths
the same tree is rendered and re-read by the real writer and the real reader (pulldown-cmark through MarkdownReader) and the
two readings are compared.

Digits: any run of decimal digits followed by '.' is an ordered marker (max 9 digits, as CommonMark says)."""
import re

class N:
    __slots__ = ('k', 'c', 'open', 'a', 'lines', 'last_blank')
    def __init__(self, k, **a):
        self.k, self.c, self.open, self.a, self.lines, self.last_blank = k, [], True, a, [], False

def indent_of(s):
    n = 0
    while n < len(s) and s[n] == ' ':
        n += 1
    return n

RE_ATX = re.compile(r'^(#{1,6}|#[\ue000-\ue0ff])(?:[ ]+|$)(.*)$')     # '#' + private-use mark: a run of '#' of symbolic length (see natives str::repeat)
RE_FENCE = re.compile(r'^(`{3,}|~{3,})\s*([^`]*)$')
RE_RULE = re.compile(r'^(?:(?:-[ ]*){3,}|(?:\*[ ]*){3,}|(?:_[ ]*){3,})$')
RE_SETEXT = re.compile(r'^(=+|-+)[ ]*$')
RE_TABLELEAF = re.compile(r'^TABLE\w*$')     # stands for the text of a table (harness stub of the cmark table writer)
RE_BULLET = re.compile(r'^([-*+])([ ]+|$)')
RE_ORDERED = re.compile(r'^(\d{1,9})([.)])([ ]+|$)')

def parse(text):
    doc = N('doc')
    lines = text.split('\n')
    if lines and lines[-1] == '':
        lines.pop()
    for line in lines:
        add_line(doc, line)
    close_all(doc)
    return doc

def tip_of(doc):
    n = doc
    while n.c and n.c[-1].open:
        n = n.c[-1]
    return n

def close_all(n):
    for c in n.c:
        close_all(c)
    n.open = False

def close_from(n):
    """close n's open descendants (not n)"""
    for c in n.c:
        if c.open:
            close_all(c)

def add_line(doc, line):
    rest = line
    cont = doc
    # 1. match the continuation markers of the open containers, outermost first
    while cont.c and cont.c[-1].open:
        ch = cont.c[-1]
        ind = indent_of(rest)
        blank = rest.strip() == ''
        if ch.k == 'quote':
            if ind <= 3 and rest[ind:ind + 1] == '>':
                rest = rest[ind + 1:]
                if rest.startswith(' '):
                    rest = rest[1:]
            else:
                break
        elif ch.k == 'list':
            pass
        elif ch.k == 'item':
            if blank:
                if not ch.c:
                    break                   # an item that began with a blank line ends at the next blank line
                rest = ''
            elif ind >= ch.a['w']:
                rest = rest[ch.a['w']:]
            else:
                break
        elif ch.k == 'fence':
            f = ch.a['fence']
            if ind <= 3 and re.match(r'^%s{%d,}[ ]*$' % (re.escape(f[0]), len(f)), rest[ind:]):
                ch.open = False
                return
            ch.lines.append(rest[min(ind, ch.a['ind']):])
            return
        elif ch.k == 'icode':
            if ind >= 4:
                ch.lines.append(rest[4:]); return
            if blank:
                ch.lines.append(''); return
            break
        else:
            break                           # paragraph: decided below
        cont = ch
    tip = tip_of(doc)
    para_tip = tip if (tip.k == 'para' and tip.open) else None
    started = False
    # 2. block starts
    while True:
        ind = indent_of(rest)
        body = rest[ind:]
        if body == '':
            break
        direct = para_tip is not None and not started and is_direct_para(cont, para_tip)
        if ind >= 4:
            if para_tip is not None and not started:
                break                       # continuation of the paragraph (lazy or not), never indented code
            cont = block_parent(doc, cont)
            blk = N('icode'); blk.lines.append(rest[4:])
            cont.c.append(blk)
            return
        if body.startswith('>'):
            cont = block_parent(doc, cont)
            q = N('quote'); cont.c.append(q); cont = q
            rest = body[1:]
            if rest.startswith(' '):
                rest = rest[1:]
            started, para_tip = True, None
            continue
        m = RE_ATX.match(body)
        if m:
            cont = block_parent(doc, cont)
            hd = N('heading', lv=(len(m.group(1)) if m.group(1)[-1] == '#' else ('sym', ord(m.group(1)[-1]) - 0xE000)))
            hd.lines.append(re.sub(r'(^|[ ]+)#+[ ]*$', '', m.group(2)).strip())
            hd.open = False
            cont.c.append(hd)
            return
        m = RE_FENCE.match(body)
        if m:
            cont = block_parent(doc, cont)
            cont.c.append(N('fence', fence=m.group(1), ind=ind, info=m.group(2).strip()))
            return
        if RE_TABLELEAF.match(body) and not (para_tip is not None and not started and not direct):
            # a table starts a block wherever its container continues (it may interrupt a paragraph); on a lazy line it is
            # paragraph text like any other
            cont = block_parent(doc, cont)
            tb = N('table'); tb.lines.append(body); tb.open = False
            cont.c.append(tb)
            return
        if direct and RE_SETEXT.match(body):
            para_tip.k = 'heading'
            para_tip.a['lv'] = 1 if body[0] == '=' else 2
            para_tip.open = False
            return
        if RE_RULE.match(body):
            cont = block_parent(doc, cont)
            r = N('rule'); r.open = False
            cont.c.append(r)
            return
        mb = RE_BULLET.match(body)
        mo = RE_ORDERED.match(body) if not mb else None
        if mb or mo:
            m = mb or mo
            empty_item = body[m.end():] == ''
            if direct and (empty_item or (mo and mo.group(1) != '1')):
                break                       # such an item cannot interrupt a paragraph
            marker_w = 1 if mb else len(mo.group(1)) + 1
            spaces = len(m.group(0)) - marker_w
            w = marker_w + (1 if (empty_item or spaces >= 5) else spaces)
            kind = ('b', mb.group(1)) if mb else ('o', mo.group(2))
            if cont.k == 'list' and cont.a['kind'] == kind:
                lst = cont
                close_below(lst)
            else:
                cont = block_parent(doc, cont)
                lst = N('list', kind=kind, start=(mo.group(1) if mo else None))
                cont.c.append(lst)
            it = N('item', w=ind + w)
            lst.c.append(it)
            cont = it
            rest = '' if empty_item else body[w:] if spaces < 5 else body[marker_w + 1:]
            started, para_tip = True, None
            continue
        break
    # 3. the rest of the line is text or blank
    body = rest.strip(' ')
    if body == '':
        close_below(cont)                   # a blank line ends the paragraph and every container it did not continue
        return
    if para_tip is not None and not started:
        para_tip.lines.append(body)         # continuation, lazy or not
        return
    cont = block_parent(doc, cont)
    p = N('para'); p.lines.append(body)
    cont.c.append(p)

def block_parent(doc, cont):
    """where a new block goes when `cont` is the deepest matched container: closes what was open below it; a list whose open
    item did not match ends here (only a sibling item could have continued it)"""
    close_below(cont)
    if cont.k == 'list':
        cont.open = False
        return parent_of(doc, cont)
    return cont

def is_direct_para(cont, para):
    return bool(cont.c) and cont.c[-1] is para

def parent_of(doc, node):
    stack = [doc]
    while stack:
        n = stack.pop()
        for c in n.c:
            if c is node:
                return n
            stack.append(c)
    return doc

def close_below(cont):
    for c in cont.c:
        if c.open:
            close_all(c)

def neutral(n):
    """reference tree -> neutral render form (see h_render)"""
    out = []
    for c in n.c:
        if c.k == 'para':
            out.append({'k': 'P', 't': '\n'.join(c.lines)})
        elif c.k == 'heading':
            out.append({'k': 'H', 'lv': c.a['lv'], 't': '\n'.join(c.lines)})
        elif c.k in ('fence', 'icode'):
            ls = list(c.lines)
            if c.k == 'icode':
                while ls and ls[-1] == '':
                    ls.pop()
            out.append({'k': 'C', 't': '\n'.join(ls) + ('\n' if ls else ''), 'lang': (c.a.get('info') or None) if c.k == 'fence' else None})
        elif c.k == 'rule':
            out.append({'k': 'R'})
        elif c.k == 'table':
            out.append({'k': 'T', 't': c.lines[0]})
        elif c.k == 'quote':
            out.append({'k': 'Q', 'c': neutral(c)})
        elif c.k == 'list':
            out.append({'k': 'BL' if c.a['kind'][0] == 'b' else 'OL', 'items': [neutral(it) for it in c.c]})
    return out


# ---- inline level, for the texts the harnesses write: words, *emphasis*, [text](url) ----------------------------------------
RE_INLINE = re.compile(r'\*([^*]+)\*|\[\[([^\]|]*)(?:\|([^\]]*))?\]\]|\[([^\]]*)\]\(([^)\s]*)\)')

def inlines(text):
    """[('str', s) | ('emph', [..]) | ('link', url, text[, link type])]"""
    out, pos = [], 0
    for m in RE_INLINE.finditer(text):
        if m.start() > pos:
            out.append(('str', text[pos:m.start()]))
        if m.group(1) is not None:
            out.append(('emph', inlines(m.group(1))))
        elif m.group(2) is not None:
            if m.group(3) is not None:
                out.append(('link', m.group(2), m.group(3), 'WikiLinkPiped'))
            else:
                out.append(('link', m.group(2), m.group(2), 'WikiLink'))
        else:
            out.append(('link', m.group(5), m.group(4)))
        pos = m.end()
    if pos < len(text):
        out.append(('str', text[pos:]))
    return out
