"""H12 / H8 / H13 at handler level: the request handlers of iwes::router::server::Server executed from MIR over a real
Database (Database::new, parser stubbed as in the library harness).  lsp-types values are built from the crate's own struct
layouts; Url is a native model (parse / join / to_string); NodeIter::to_markdown returns the GraphBlocks of the real Projector."""
import re
import z3
from harness import *
import h_lib, h_doc
from h_lib import resolve, is_external
from h_doc import std_json, out_seq, tokens_of
import natives
from natives import URL

BASE = 'file:///basepath/'

def lsp_default(prog, ty):
    """default value for an lsp-types field type (only the shapes the handlers read)"""
    t = ty.strip()
    if t.startswith('Option<'):
        return NONE()
    if t in ('WorkDoneProgressParams',):
        return prog.mk_struct('lsp_types::WorkDoneProgressParams', work_done_token=NONE())
    if t in ('PartialResultParams',):
        return prog.mk_struct('lsp_types::PartialResultParams', partial_result_token=NONE())
    if t == 'bool':
        return False
    if t.startswith('Vec<'):
        return VecV()
    if t == 'String':
        return ''
    raise Unsupported('lsp default for ' + ty)

def lsp(prog, name, **kw):
    full, info = prog.struct_fields('lsp_types::' + name)
    assert info and info[0] == 'named', name
    vals = []
    names = []
    for fname, fty in info[1]:
        names.append(fname)
        vals.append(Cell(kw[fname] if fname in kw else lsp_default(prog, fty)))
    assert set(kw) <= set(names), (name, names, list(kw))
    return Struct(full, vals, names)

def url_of(key):
    return BASE + key + '.md'

def plain_tokens(blocks):
    """text outside link labels, in document order (link labels may be refreshed titles)"""
    out = []
    def inl(xs):
        for i in xs:
            v = i.get('_v')
            if v == 'Str':
                out.append(i['_0'].strip())
            elif v == 'Link':
                out.append('<link>')
            elif isinstance(i.get('_0'), list):
                inl(i['_0'])
    def walk(bs):
        for b in bs:
            v = b['_v']
            if v in ('Para', 'Plain'): inl(b['_0'])
            elif v == 'Header': inl(b['_f'][1])
            elif v == 'BlockQuote': walk(b['_0'])
            elif v in ('BulletList', 'OrderedList'):
                for it in b['_0']: walk(it)
    walk(blocks)
    return [t for t in out if t]

def neutral_tokens(blocks):
    out = []
    def inl(xs):
        for i in xs:
            if i['k'] == 'Str': out.append(i['t'].strip())
            elif i['k'] == 'Link': out.append('<link>')
            elif 'c' in i: inl(i['c'])
    for b in blocks:
        k = b['k']
        if k in ('Header', 'Para'):
            if 'inl' in b: inl(b['inl'])
            else: out.append(b['t'])
        elif k == 'Ref': out.append('<link>')
        elif k == 'Quote': out += neutral_tokens(b['c'])
        elif k in ('Bullet', 'Ordered'):
            for it in b['items']: out += neutral_tokens(it)
    return [t for t in out if t]

class ServerHarness(h_lib.LibHarness):
    name = 'server_requests'
    real_functions = ('Server::{handle_references,handle_goto_definition,handle_prepare_rename,handle_rename,handle_document_formatting,'
                      'handle_inlay_hints,handle_document_symbols,handle_code_action,handle_code_action_resolve,handle_did_change_text_document}',
                      'BasePath::{key_to_url,url_to_key,name_to_url,relative_to_full_path}', 'extension traits of extensions.rs', 'Database::{new,parser,lines,update_document}',
                      'Parser::{new,url_at,link_at}', 'Document::link_at', 'Tree::change_key', 'GraphInline::change_key', 'Graph::{new_patch,build_key,export_key,to_markdown}',
                      'GraphBuilder::insert_from_iter', 'the seven action providers')
    tv_every = 3
    tv_phase = 0
    required_covers = ('references', 'definition-found', 'definition-none', 'rename', 'rename-refused', 'formatting', 'symbols', 'hints',
                       'code-action-resolved', 'unknown-uri', 'after-edit')

    def __init__(self, prog, tier='quick'):
        h_lib.LibHarness.__init__(self, prog, tier)
        self.name = 'server_requests'
        self.required_covers = ServerHarness.required_covers
        self.bounds = {'notes': ['a', 'b', 'd/c', 'd/e'], 'documents': 'menus of <= 3 blocks with block / inline links, headings, lists, quotes',
                       'requests': 'references, definition, prepareRename, rename, formatting, documentSymbol, inlayHint, codeAction(+resolve), after an optional didChange',
                       'uris': 'every note, a note that is not loaded, a uri outside the library', 'positions': 'symbolic (line, character) for definition / prepareRename'}
        self.md_pat = re.compile(r"NodeIter(<'_>)?>::(to_markdown|to_default_markdown)$")

    def stub_md(self, ex, c, args, dt):
        parent = args[1] if c.method == 'to_markdown' else Ref(Cell(''))
        blocks = ex.call("Projector::project::<TreeIter<'_>>", [args[0], parent])
        return Opaque('Blocks', std_json(pyval(blocks)))

    # ---- documents with concrete link geometry
    def doc(self, h, spec, prefix):
        """spec elements: ('H',), ('P',), ('R', url), ('I', url), ('L', url).  Every link sits alone on its line: span (line,4)..(line,14)"""
        neutral, vals = [], []
        line = 0
        n = 0
        links = []
        def tok():
            nonlocal n
            n += 1
            return '%s%d' % (prefix, n)
        for b in spec:
            k = b[0]
            lr = h.rng(line, line + 1)
            if k == 'H':
                t = tok(); neutral.append({'k': 'Header', 't': t, 'lv': 1, 'lr': [line, line + 1]}); vals.append(h.header(1, [h.istr(t)], lr))
            elif k == 'P':
                t = tok(); neutral.append({'k': 'Para', 't': t, 'lr': [line, line + 1]}); vals.append(h.para([h.istr(t)], lr))
            elif k == 'R':
                t = tok(); span = h.rng(h.pos(line, 0), h.pos(line, 10))
                neutral.append({'k': 'Ref', 't': t, 'url': b[1], 'lr': [line, line + 1]})
                vals.append(h.para([h.ilink(b[1], t, rng=span)], lr)); links.append((line, 0, 10, b[1]))
            elif k == 'I':
                t = tok(); span = h.rng(h.pos(line, 4), h.pos(line, 14))
                neutral.append({'k': 'Para', 't': t, 'lr': [line, line + 1], 'inl': [{'k': 'Str', 't': t + ' '}, {'k': 'Link', 'url': b[1], 'c': [{'k': 'Str', 't': 'x'}]}]})
                vals.append(h.para([h.istr(t + ' '), h.ilink(b[1], 'x', rng=span)], lr)); links.append((line, 4, 14, b[1]))
            elif k == 'Q':
                t = tok(); span = h.rng(h.pos(line, 2), h.pos(line, 12))
                neutral.append({'k': 'Quote', 'lr': [line, line + 1], 'c': [{'k': 'Ref', 't': t, 'url': b[1], 'lr': [line, line + 1]}]})
                vals.append(h.quote([h.para([h.ilink(b[1], t, rng=span)], lr)], lr)); links.append((line, 2, 12, b[1]))
            elif k == 'L':
                t = tok(); span = h.rng(h.pos(line, 6), h.pos(line, 16))
                neutral.append({'k': 'Bullet', 'items': [[{'k': 'Para', 't': t, 'lr': [line, line + 1], 'inl': [{'k': 'Str', 't': t + ' '}, {'k': 'Link', 'url': b[1], 'c': [{'k': 'Str', 't': 'x'}]}]}]]})
                vals.append(h.bullets([[h.para([h.istr(t + ' '), h.ilink(b[1], 'x', rng=span)], lr)]])); links.append((line, 6, 16, b[1]))
            line += 2
        return neutral, h.document(vals), links

    def run(self, ctx, ex):
        h = self.h
        prog = self.prog
        self.cur_docs = {}
        prog.overrides = {self.stub_pat: self.stub_document, self.md_pat: self.stub_md,
                          re.compile(r'identifier_to_action_kind$'): lambda ex, c, a, dt: Struct('lsp_types::CodeActionKind', [Cell(natives.as_str(a[0]))], None)}
        # ---- library
        menu_a = [[('H',), ('R', 'b'), ('P',)], [('H',), ('I', 'b.md'), ('R', 'd/c')], [('P',), ('L', 'b')], [('H',), ('R', 'zz'), ('I', 'a')], [('R', 'b')], [('H',), ('Q', 'b')]]
        menu_b = [[('H',), ('P',)], [('P',), ('I', 'a')], [('H',), ('R', 'a.md'), ('R', 'd/c')]]
        menu_c = [[('H',), ('R', 'c2')], [('H',), ('I', 'b')], [('H',), ('R', 'e')]]       # in d/: `c2` -> d/c2 (missing), inline `b` is the known root-resolution case, `e` -> d/e (exists)
        specs = {'a': menu_a[ctx.choose(len(menu_a))], 'b': menu_b[ctx.choose(len(menu_b))], 'd/c': menu_c[ctx.choose(len(menu_c))], 'd/e': [('H',), ('P',)]}
        texts, self.links, self.neutral = {}, {}, {}
        for k, sp in specs.items():
            n, v, links = self.doc(h, sp, k.replace('/', '').upper())
            tok = 'DOC:' + k + ':0'
            self.cur_docs[tok] = (n, v, sp)
            texts[k] = tok; self.links[k] = links; self.neutral[k] = n
        init_texts = {k: h_lib.render_neutral(self.neutral[k]) for k in specs}
        edit_text = None
        db = self.fresh_db(ex, texts)
        cfg = ex.call('<Configuration as Default>::default', [], 'model::config::Configuration')
        server = prog.mk_struct('router::server::Server', base_path=prog.mk_struct('router::server::BasePath', base_path=BASE), database=db,
                                lsp_client=prog.mk_enum('router::LspClient', 'Unknown'), configuration=cfg)
        sref = Ref(Cell(server))
        edited = False
        if ctx.choose(2) == 1:
            # a didChange first: note b is replaced
            nb = [[('P',)], [('H',), ('R', 'a')]][ctx.choose(2)]
            n, v, links = self.doc(h, nb, 'BB')
            tok = 'DOC:b:1'
            self.cur_docs[tok] = (n, v, nb)
            specs['b'] = nb; self.links['b'] = links; self.neutral['b'] = n; texts['b'] = tok
            ident = lsp(prog, 'VersionedTextDocumentIdentifier', uri=URL(url_of('b')), version=1)
            change = lsp(prog, 'TextDocumentContentChangeEvent', text=tok)
            ex.call('Server::handle_did_change_text_document', [sref, lsp(prog, 'DidChangeTextDocumentParams', text_document=ident, content_changes=h.vec([change]))])
            edited = True
            edit_text = h_lib.render_neutral(n)
            ctx.cover('after-edit')
        uris = [('a', url_of('a')), ('b', url_of('b')), ('d/c', url_of('d/c')), (None, url_of('nope')), (None, 'file:///elsewhere/x.md'), (None, 'file:///x.md')]
        ukey, uri = uris[ctx.choose(len(uris))]
        req = ('references', 'definition', 'prepare_rename', 'rename', 'formatting', 'symbols', 'hints', 'code_action')[ctx.choose(8)]
        ctx.input_desc = {'notes': {k: [list(x) for x in s] for k, s in specs.items()}, 'edited_b': edited, 'request': req, 'uri': uri}
        ctx.req = (req, ukey, uri)
        ctx.state_texts = init_texts
        ctx.edit_text = edit_text
        ctx.links_now = {k: list(v) for k, v in self.links.items()}
        ctx.neutral_now = {k: h_doc.concretize_tree(v, {}) for k, v in self.neutral.items()}
        if ukey is None: ctx.cover('unknown-uri')
        info = {'input': ctx.input_desc}
        tdi = lsp(prog, 'TextDocumentIdentifier', uri=URL(uri))
        docs = self.neutral
        if req == 'references':
            p = lsp(prog, 'ReferenceParams', text_document_position=lsp(prog, 'TextDocumentPositionParams', text_document=tdi, position=natives._lsp_position_new(ex, None, [0, 0], None)),
                    context=lsp(prog, 'ReferenceContext', include_declaration=False))
            r = ex.call('Server::handle_references', [sref, p])
            got = sorted((natives.url_str(l.get('uri')), l.get('range').get('start').get('line')) for l in (x.v for x in r.items))
            exp = []
            if ukey is not None:
                eb, ei = {}, {}
                for k, d in docs.items():
                    self.scan_lines(d, k, eb, ei)
                exp = sorted([(url_of(k), ln) for (k, ln) in eb.get(ukey, [])] + [(url_of(k), ln) for (k, ln) in ei.get(ukey, [])])
            ctx.law('C05.references-name-the-linking-notes-and-lines', got == exp, dict(info, expected=exp, got=got))
            ctx.law('C13.reference-locations-are-the-linking-lines', got == exp, dict(info, expected=exp, got=got))
            ctx.cover('references')
            ctx.tv_result = [list(x) for x in got]
        elif req in ('definition', 'prepare_rename'):
            line, ch = ctx.sym_bv('line', 32), ctx.sym_bv('character', 32)
            def query():
                pos = natives._lsp_position_new(ex, None, [line, ch], None)
                tdp = lsp(prog, 'TextDocumentPositionParams', text_document=tdi, position=pos)
                links = self.links.get(ukey, []) if ukey else []
                inside = {u: z3.And(line == l, z3.UGE(ch, c0), z3.ULT(ch, c1)) for (l, c0, c1, u) in links}
                if req == 'definition':
                    r = ex.call('Server::handle_goto_definition', [sref, lsp(prog, 'GotoDefinitionParams', text_document_position_params=tdp)])
                    target = natives.url_str(r.f[0].v.get('uri')) if r.vn == 'Scalar' else None
                    if target is None:
                        ctx.law('C13.definition-offered-inside-every-link-span', z3.Not(z3.Or(*inside.values())) if inside else True, dict(info, got=None))
                        ctx.cover('definition-none')
                    else:
                        ok = z3.Or(*[z3.And(f, url_of(resolve(u, ukey)) == target) for u, f in inside.items()]) if inside else False
                        ctx.law('C13.definition-points-at-the-note-the-link-resolves-to', ok, dict(info, got=target))
                        ctx.cover('definition-found')
                    return target
                r = ex.call('Server::handle_prepare_rename', [sref, tdp])
                if r.vi == 0:
                    ctx.law('C13.prepare-rename-offered-inside-every-link-span', z3.Not(z3.Or(*inside.values())) if inside else True, dict(info, got=None))
                else:
                    ctx.law('C13.prepare-rename-only-inside-a-link-span', z3.Or(*inside.values()) if inside else False, dict(info, got='offered'))
                return r.vi
            ctx.forall(query)
        elif req == 'rename':
            self.rename(ctx, ex, sref, tdi, ukey, specs, info)
        elif req == 'formatting':
            r = ex.call('Server::handle_document_formatting', [sref, lsp(prog, 'DocumentFormattingParams', text_document=tdi,
                        options=lsp(prog, 'FormattingOptions', tab_size=2, insert_spaces=True, properties=MapV())) ])
            edits = [x.v for x in r.items]
            if ukey is None:
                ctx.law('C12.nothing-to-format-for-an-unknown-file', edits == [], info)
                ctx.cover('formatting')
                return info
            blocks = edits[0].get('new_text')
            got = plain_tokens(blocks.data) if type(blocks) is Opaque else None
            exp = neutral_tokens(docs[ukey]) if ukey else None
            ctx.law('C01.formatting-request-keeps-every-block', got is not None and got == exp, dict(info, got=got, expected=exp))
            ctx.cover('formatting')
            ctx.tv_result = got
        elif req == 'symbols':
            r = ex.call('Server::handle_document_symbols', [sref, lsp(prog, 'DocumentSymbolParams', text_document=tdi)])
            ctx.cover('symbols')
            ctx.tv_result = [[x.v.get('name'), natives.url_str(x.v.get('location').get('uri')), x.v.get('location').get('range').get('start').get('line')] for x in r.items]
        elif req == 'hints':
            r = ex.call('Server::handle_inlay_hints', [sref, lsp(prog, 'InlayHintParams', text_document=tdi, range=natives._lsp_range_new(ex, None, [natives._lsp_position_new(ex, None, [0, 0], None), natives._lsp_position_new(ex, None, [99, 0], None)], None))])
            ctx.cover('hints')
            ctx.tv_result = sorted([x.v.get('label').f[0].v, x.v.get('position').get('line')] for x in r.items)
        else:
            self.code_action(ctx, ex, sref, tdi, ukey, info)
        if getattr(ctx, 'tv_result', None) is not None and self.tv_pick(ctx.trace):
            base = {'op': 'server', 'state': {k + '.md': t for k, t in init_texts.items()}, 'request': req, 'uri': uri, 'line': 0, 'character': 0}
            if edit_text is not None:
                base['edits'] = [{'uri': url_of('b'), 'text': edit_text}]
            if req == 'rename' and getattr(ctx, 'rename', None):
                base.update(line=ctx.rename['line'], character=ctx.rename['character'], new_name=ctx.rename['new_name'])
            ctx.tv = {'script': [base], 'expect': None, 'post': [req, ctx.tv_result]}
        return info

    def tv_compare(self, tv, native_out):
        req, exp = tv['post']
        out = native_out[0]
        if isinstance(out, dict) and ('panic' in out or 'crash' in out):
            tv['diff'] = out
            return False
        if req == 'references':
            got = sorted([l['uri'], l['range']['start']['line']] for l in out)
        elif req == 'formatting':
            got = plain_tokens(out[0]) if out else None
        elif req == 'symbols':
            got = [[x['name'], x['location']['uri'], x['location']['range']['start']['line']] for x in out]
        elif req == 'hints':
            got = sorted([x['label'], x['position']['line']] for x in out)
        elif req == 'rename':
            e = out.get('ok')
            got = {'deleted': e['deleted'], 'created': e['created'], 'edits': {u: [plain_tokens(b), sorted(x[0] for x in self.refs_of(b))] for u, b in e['edits'].items()}} if e else None
            exp = dict(exp, edits={u: [v[0], sorted(x[0] for x in v[1])] for u, v in exp['edits'].items()}) if exp else exp      # link labels are refreshed by the text round trip: urls only
        else:
            return True
        if got != exp:
            tv['diff'] = {'executor': exp, 'native': got}
            return False
        return True

    def tv_pick(self, trace):
        import zlib
        return zlib.crc32(repr(trace).encode()) % self.tv_every == self.tv_phase

    def tok_list(self, seq):
        return sorted(tokens_of(seq))

    def tok_list_in(self, blocks):
        out = []
        for b in blocks:
            if b['k'] in ('Header', 'Para'):
                out.append(h_doc.inl_text_neutral(b) if 'inl' in b else b['t'])
            elif b['k'] == 'Ref':
                out.append(b['t'])
            elif b['k'] == 'Bullet':
                for it in b['items']:
                    out += self.tok_list_in(it)
        return sorted(out)

    def to_doc_tree(self, blocks):
        return blocks

    def scan_lines(self, blocks, note, eb, ei):
        for b in blocks:
            k = b['k']
            if k == 'Ref':
                t = resolve(b['url'], note)
                if t is not None: eb.setdefault(t, []).append((note, b['lr'][0]))
            elif k in ('Para', 'Header'):
                for u in h_lib.inline_urls(b.get('inl', [])):
                    t = resolve(u, note)
                    if t is not None: ei.setdefault(t, []).append((note, b['lr'][0]))
            elif k == 'Bullet':
                for it in b['items']:
                    self.scan_lines(it, note, eb, ei)
            elif k == 'Quote':
                self.scan_lines(b['c'], note, eb, ei)

    # ---- rename
    def rename(self, ctx, ex, sref, tdi, ukey, specs, info):
        prog, h = self.prog, self.h
        links = self.links.get(ukey, []) if ukey else []
        if links:
            l, c0, c1, url = links[ctx.choose(len(links))]
            pos = natives._lsp_position_new(ex, None, [l, c0 + 1], None)
        else:
            url = None
            pos = natives._lsp_position_new(ex, None, [0, 0], None)
        new_name = ('n', 'b', 'a')[ctx.choose(3)]
        ctx.rename = {'link': url, 'new_name': new_name, 'line': pos.get('line'), 'character': pos.get('character')}
        ctx.rename_target_exists = bool(url) and not is_external(url) and resolve(url, ukey) in set(specs) if ukey else False
        p = lsp(prog, 'RenameParams', text_document_position=lsp(prog, 'TextDocumentPositionParams', text_document=tdi, position=pos), new_name=new_name)
        r = ex.call('Server::handle_rename', [sref, p])
        info = dict(info, link=url, new_name=new_name)
        notes = set(specs)
        if new_name in notes:
            ctx.law('C08.rename-onto-an-existing-note-is-refused', r.vn == 'Err', info)
            ctx.cover('rename-refused')
            return
        if not ctx.law('C08.rename-answers', r.vn == 'Ok', info):
            return
        opt = r.f[0].v
        if url is None or is_external(url):
            ctx.law('C08.no-edit-without-a-link-under-the-cursor', opt.vi == 0, info)
            return
        old = resolve(url, ukey)
        if old not in notes:
            ctx.law('C08.no-edit-for-a-link-to-a-missing-note', opt.vi == 0, dict(info, old=old))
            return
        if not ctx.law('C08.rename-on-a-link-produces-an-edit', opt.vi == 1, info):
            return
        ops = [x.v for x in opt.f[0].v.get('document_changes').f[0].v.f[0].v.items]
        deleted, created, edits = [], [], {}
        for o in ops:
            if o.vn == 'Op':
                ro = o.f[0].v
                (deleted if ro.vn == 'Delete' else created).append(natives.url_str(ro.f[0].v.get('uri')))
            else:
                te = o.f[0].v
                u = natives.url_str(te.get('text_document').get('uri'))
                nt = te.get('edits').items[0].v.f[0].v.get('new_text')
                edits[u] = nt.data if type(nt) is Opaque else None
        self.judge_rename(self.neutral, ukey, url, new_name, deleted, created, edits, ctx.law, info)
        ctx.cover('rename')
        ctx.tv_result = {'deleted': deleted, 'created': created, 'edits': {u: [plain_tokens(b), sorted(self.refs_of(b))] for u, b in edits.items() if b is not None}}

    def judge_rename(self, docs, ukey, url, new_name, deleted, created, edits, law, info):
        old = resolve(url, ukey)
        info = dict(info, deleted=deleted, created=created, edited=sorted(edits), old=old)
        law('C08.old-name-deleted-once', deleted == [url_of(old)], info)
        law('C08.new-name-created-once', created == [url_of(new_name)], info)
        eb, ei = {}, {}
        for k, d in docs.items():
            self.scan_lines(d, k, eb, ei)
        linkers = sorted({k for (k, ln) in eb.get(old, []) + ei.get(old, []) if k != old})
        expect_edit = sorted([url_of(k) for k in linkers] + [url_of(new_name)])
        law('C08.exactly-the-linking-notes-and-the-new-note-are-written', sorted(edits) == expect_edit, dict(info, expected=expect_edit))
        if old in docs and edits.get(url_of(new_name)) is not None:
            law('C08.moved-note-keeps-its-content', plain_tokens(edits[url_of(new_name)]) == neutral_tokens(docs[old]),
                dict(info, got=plain_tokens(edits[url_of(new_name)]), expected=neutral_tokens(docs[old])))
            # links of the moved note itself: links to itself follow the new name, the others are kept
            before = sorted((new_name if resolve(u, old) == old else resolve(u, old)) for u in self.urls_of(docs[old]))
            after = sorted(resolve(u, new_name) for (u, t) in self.refs_of(edits[url_of(new_name)]))
            law('C08.links-of-the-moved-note-kept', before == after, dict(info, before=before, after=after))
        for k in linkers:
            got = edits.get(url_of(k))
            if got is None:
                continue
            refs = self.refs_of(got)
            for (u, t) in refs:
                law('C08.no-link-to-the-old-name-remains', resolve(u, k) != old, dict(info, note=k, link=u))
            n_old = len([1 for (kk, ln) in eb.get(old, []) + ei.get(old, []) if kk == k])
            n_new = len([1 for (u, t) in refs if resolve(u, k) == new_name])
            law('C08.every-link-to-the-old-name-now-points-to-the-new-name', n_new == n_old, dict(info, note=k, links_to_new=n_new, links_to_old_before=n_old))
            others_before = sorted(resolve(u, k) for u in self.urls_of(docs[k]) if resolve(u, k) != old)
            others_after = sorted(resolve(u, k) for (u, t) in refs if resolve(u, k) != new_name)
            law('C08.other-links-untouched', others_before == others_after, dict(info, note=k, before=others_before, after=others_after))
            law('C08.text-of-linking-notes-kept', plain_tokens(got) == neutral_tokens(docs[k]), dict(info, note=k, got=plain_tokens(got), expected=neutral_tokens(docs[k])))

    def refs_of(self, blocks):
        """(url, text) of every internal link in projected GraphBlocks (neutral JSON)"""
        out = []
        def inl(xs):
            for i in xs:
                if i.get('_v') == 'Link':
                    f = i['_f']
                    if not is_external(f[0]):
                        out.append((f[0], h_doc.inl_text(f[3])))
                elif isinstance(i.get('_0'), list):
                    inl(i['_0'])
        def walk(bs):
            for b in bs:
                v = b['_v']
                if v in ('Para', 'Plain'):
                    inl(b['_0'])
                elif v == 'Header':
                    inl(b['_f'][1])
                elif v == 'BlockQuote':
                    walk(b['_0'])
                elif v in ('BulletList', 'OrderedList'):
                    for it in b['_0']:
                        walk(it)
        walk(blocks)
        return out

    def urls_of(self, blocks):
        out = []
        for b in blocks:
            if b['k'] == 'Ref':
                out.append(b['url'])
            elif b['k'] in ('Para', 'Header'):
                out += list(h_lib.inline_urls(b.get('inl', [])))
            elif b['k'] == 'Bullet':
                for it in b['items']:
                    out += self.urls_of(it)
            elif b['k'] == 'Quote':
                out += self.urls_of(b['c'])
        return [u for u in out if not is_external(u)]

    # ---- code actions through the handlers
    def code_action(self, ctx, ex, sref, tdi, ukey, info):
        prog = self.prog
        line = ctx.choose(4) * 2
        if ctx.choose(2) == 1:
            # a client that sends non-empty ranges (Helix): the actions are those of the block at the START of the range
            def acts_for(client, l0, l1, c1):
                server = sref.cell.v
                server.cell('lsp_client').v = prog.mk_enum('router::LspClient', client)
                rng = natives._lsp_range_new(ex, None, [natives._lsp_position_new(ex, None, [l0, 0], None), natives._lsp_position_new(ex, None, [l1, c1], None)], None)
                p = lsp(prog, 'CodeActionParams', text_document=tdi, range=rng, context=lsp(prog, 'CodeActionContext', diagnostics=VecV()))
                r = ex.call('Server::handle_code_action', [sref, Ref(Cell(p))])
                out = []
                for x in r.items:
                    ca = x.v.f[0].v
                    out.append((ca.get('title'), pyval(ca.get('data'))))
                return out
            base = acts_for('Helix', line, line, 0)
            wide = acts_for('Helix', line, line + 2, 0)
            ctx.law('C13.code-actions-operate-on-the-block-at-the-range-start', str(base) == str(wide), dict(info, line=line, at_start=str(base), wide_range=str(wide)))
            ctx.cover('code-action-resolved')
            return
        rng = natives._lsp_range_new(ex, None, [natives._lsp_position_new(ex, None, [line, 0], None), natives._lsp_position_new(ex, None, [line, 0], None)], None)
        p = lsp(prog, 'CodeActionParams', text_document=tdi, range=rng, context=lsp(prog, 'CodeActionContext', diagnostics=VecV()))
        r = ex.call('Server::handle_code_action', [sref, Ref(Cell(p))])
        acts = [x.v for x in r.items]
        for a in acts:
            ca = a.f[0].v
            res = ex.call('Server::handle_code_action_resolve', [sref, Ref(Cell(ca))])
            ctx.law('C12.resolved-code-action-carries-an-edit', res.get('edit').vi == 1, info)
            ctx.cover('code-action-resolved')

    def on_panic(self, ctx, ex, e, res):
        req, ukey, uri = getattr(ctx, 'req', (None, None, None))
        ctx.violations.append({'law': 'C12.every-request-is-answered', 'model': ctx.model(),
                               'info': {'msg': res['detail'], 'where': res.get('where'), 'input': getattr(ctx, 'input_desc', None)}})
        if req == 'rename':
            ctx.violations.append({'law': 'C08.rename-is-answered', 'model': ctx.model(),
                                   'info': {'msg': res['detail'], 'where': res.get('where'), 'input': getattr(ctx, 'input_desc', None)}})

    def finish_violation(self, ctx, v):
        req, ukey, uri = getattr(ctx, 'req', (None, None, None))
        role = 'general'
        msg = v['info'].get('msg') or ''
        d = getattr(ctx, 'input_desc', None) or {}
        if v['law'] == 'C12.every-request-is-answered' and ukey is None and 'to have key' in msg:
            role = 'request-for-a-note-that-is-not-loaded:' + str(req)
        elif v['law'] in ('C12.every-request-is-answered', 'C08.rename-is-answered') and req == 'rename' and 'to have key' in msg and ukey and '/' in ukey and getattr(ctx, 'rename_target_exists', False):
            role = 'rename-site-in-sub-directory'
        elif v['law'] in ('C12.every-request-is-answered', 'C08.rename-is-answered') and req == 'rename' and 'to have key' in msg:
            role = 'rename-on-a-link-to-a-missing-note'
        elif v['law'] == 'C12.every-request-is-answered' and req == 'code_action' and 'to have key' in msg and ukey is not None:
            role = 'inline-dangling-reference'
        elif v['law'].startswith('C08.') and any(b[0] == 'I' for b in d.get('notes', {}).get('d/c', [])):
            role = 'inline-link-in-sub-directory-resolved-from-library-root'
        elif v['law'] in ('C05.references-name-the-linking-notes-and-lines', 'C13.reference-locations-are-the-linking-lines') and \
                any(b[0] == 'I' for b in d.get('notes', {}).get('d/c', [])):
            role = 'inline-link-in-sub-directory-resolved-from-library-root'
        v['role'] = role
        v['input_tree'] = {'texts': getattr(ctx, 'state_texts', None), 'edit_text': getattr(ctx, 'edit_text', None), 'request': req, 'uri': uri, 'ukey': ukey,
                           'desc': getattr(ctx, 'input_desc', None), 'model': v.get('model'), 'rename': getattr(ctx, 'rename', None),
                           'docs': getattr(ctx, 'neutral_now', None), 'links': getattr(ctx, 'links_now', None)}

    def replay(self, v, driver):
        d = v['input_tree']
        base = {'op': 'server', 'state': {k + '.md': t for k, t in (d['texts'] or {}).items()}, 'request': d['request'], 'uri': d['uri'],
                'line': (d.get('model') or {}).get('line', 0), 'character': (d.get('model') or {}).get('character', 0)}
        if d.get('edit_text') is not None:
            base['edits'] = [{'uri': url_of('b'), 'text': d['edit_text']}]
        req = d['request']
        if req == 'rename' and d.get('rename'):
            base.update(line=d['rename']['line'], character=d['rename']['character'], new_name=d['rename']['new_name'])
        if v['law'] == 'C13.code-actions-operate-on-the-block-at-the-range-start':
            base.update(request='code_action_range', line=v['info'].get('line', 0))
        res = driver.run([base], timeout=60)
        v['replay_script'], v['replay_result'] = [base], res
        last = res[-1]
        if v['law'] == 'C13.code-actions-operate-on-the-block-at-the-range-start':
            v['replay_verdict'] = 'native (Helix), empty range vs range ending two lines below: %s' % str(last)[:300]
            return isinstance(last, list) and len(last) == 2 and last[0] != last[1]
        if isinstance(last, dict) and ('panic' in last or 'crash' in last):
            v['replay_verdict'] = 'native: %s' % str(last)[:200]
            return v['law'].startswith('C12.')
        v['replay_verdict'] = 'native answered: %s' % str(last)[:300]
        if v['law'].startswith('C12.'):
            if v['law'] == 'C12.resolved-code-action-carries-an-edit':
                return any(not a.get('has_edit') for a in last)
            return False
        docs, ukey = d['docs'], d['ukey']
        failed = []
        def law(name, ok, info=None):
            if ok is not True:
                failed.append(name)
            return ok is True
        if req == 'rename' and d.get('rename') and isinstance(last, dict):
            rn = d['rename']
            if v['law'] == 'C08.rename-onto-an-existing-note-is-refused':
                v['replay_verdict'] = 'native rename onto %s: %s' % (rn['new_name'], str(last)[:120])
                return 'err' not in last
            if v['law'] == 'C08.rename-answers':
                return 'err' in last
            if v['law'] == 'C08.no-edit-without-a-link-under-the-cursor':
                return last.get('ok') is not None
            if 'err' in last:
                failed.append('refused')
            elif last.get('ok') is None:
                failed += ['C08.rename-on-a-link-produces-an-edit'] if resolve(rn['link'], ukey) in docs else []
                if resolve(rn['link'], ukey) not in docs and v['law'] == 'C08.no-edit-for-a-link-to-a-missing-note':
                    return False
            else:
                e = last['ok']
                self.judge_rename(docs, ukey, rn['link'], rn['new_name'], e['deleted'], e['created'], e['edits'], law, {})
            v['replay_verdict'] = 'native rename: laws violated %s' % failed
            return v['law'] in failed
        if req == 'references':
            got = sorted((l['uri'], l['range']['start']['line']) for l in last)
            exp = sorted(tuple(x) for x in v['info'].get('expected', []))
            v['replay_verdict'] = 'native references %s, independent scan expects %s' % (got, exp)
            return got != exp
        if req == 'formatting' and isinstance(last, list) and last:
            got = plain_tokens(last[0])
            exp = neutral_tokens(docs[ukey]) if ukey else None
            v['replay_verdict'] = 'native formatting tokens %s, expected %s' % (got, exp)
            return got != exp
        if req in ('definition', 'prepare_rename'):
            # probe the real spans: just inside the start of every link of the note, and far right of it
            bad = []
            for (l, c0, c1, u) in d.get('links', {}).get(ukey, []) if ukey else []:
                inside = driver.run([dict(base, line=l, character=c0 + 1)])[0]
                outside = driver.run([dict(base, line=l, character=500)])[0]
                found_in = bool(inside) and inside != [] and inside is not None
                found_out = bool(outside) and outside != []
                if not found_in or found_out:
                    bad.append((l, inside, outside))
            v['replay_verdict'] = 'native %s probes deviating: %s' % (req, bad[:2])
            return bool(bad)
        return False
