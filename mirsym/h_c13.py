"""C13 kernels: byte offset -> line / column conversion (to_line_range, to_inline_range, line_starts)."""
import z3
from harness import *
import natives

def mk_reader(h, prog, ls_vals):
    return prog.mk_struct('markdown::reader::MarkdownEventsReader', inlines_pos_stack=VecV(), inlines_stack=VecV(), blocks_stack=VecV(),
                          blocks=VecV(), line_starts=h.vec(ls_vals), metadata_block=False, metadata=NONE())

def line_of(ls, n, i, off):
    """formula: line i (concrete) is the line containing byte offset off, for the sorted table ls"""
    c = [z3.ULE(ls[i], off)]
    if i + 1 < n:
        c.append(z3.ULT(off, ls[i + 1]))
    return z3.And(*c)

class KernelHarness(Harness):
    """H13a: every sorted line table with n entries, every byte range"""
    name = 'offset_kernels'
    real_functions = ('MarkdownEventsReader::to_line_range', 'MarkdownEventsReader::to_inline_range')
    required_covers = ('multi-line-range', 'single-line-range', 'range-past-last-line-start')

    def __init__(self, prog, tier='quick'):
        Harness.__init__(self, prog, tier)
        self.sizes = (1, 2, 3, 4) if tier == 'quick' else (1, 2, 3, 4, 5, 6, 7)
        self.bounds = {'line_table_entries': list(self.sizes), 'offsets': 'any usize with start <= end', 'table': 'ls[0]=0, strictly increasing'}

    def run(self, ctx, ex):
        h = self.h
        n = self.sizes[ctx.choose(len(self.sizes))]
        which = ctx.choose(2)
        ls = [ctx.sym_bv('ls%d' % i, 64) for i in range(n)]
        ctx.assume(ls[0] == 0)
        for a, b in zip(ls, ls[1:]):
            ctx.assume(z3.ULT(a, b))
        s, e = ctx.sym_bv('start', 64), ctx.sym_bv('end', 64)
        ctx.assume(z3.ULE(s, e))
        ctx.input_desc = {'n': n, 'fn': ['to_line_range', 'to_inline_range'][which]}
        rd = mk_reader(h, self.prog, ls)
        if which == 0:
            r = ex.call('MarkdownEventsReader::to_line_range', [Ref(Cell(rd)), h.rng(s, e)])
            a, b = r.f[0].v, r.f[1].v
            info = {'n': n, 'result': [str(a), str(b)]}
            ok = isinstance(a, int) and isinstance(b, int) and 0 <= a < n
            ctx.law('C13.line-range-indices-concrete-and-in-table', ok, info)
            if not ok:
                return info
            ctx.law('C13.start-line-contains-range-start', line_of(ls, n, a, s), info)
            ctx.law('C13.line-range-non-empty', b > a, info)
            # end: the line containing range.end, or one past it (never before the start line, never further)
            cands = [i for i in (b - 1, b) if 0 <= i < n]
            ctx.law('C13.end-line-within-one-of-range-end', z3.Or(*[line_of(ls, n, i, e) for i in cands]) if cands else False, info)
            if b > a + 1: ctx.cover('multi-line-range')
            else: ctx.cover('single-line-range')
            if a == n - 1: ctx.cover('range-past-last-line-start')
            return info
        r = ex.call('MarkdownEventsReader::to_inline_range', [Ref(Cell(rd)), h.rng(s, e)])
        ps, pe = r.f[0].v, r.f[1].v
        sl, sc, el, ec = ps.f[0].v, ps.f[1].v, pe.f[0].v, pe.f[1].v
        info = {'n': n, 'result': [str(sl), str(sc), str(el), str(ec)]}
        ok = isinstance(sl, int) and isinstance(el, int) and 0 <= sl < n and 0 <= el < n
        ctx.law('C13.inline-range-lines-concrete-and-in-table', ok, info)
        if not ok:
            return info
        ctx.law('C13.inline-start-line-contains-start', line_of(ls, n, sl, s), info)
        ctx.law('C13.inline-end-line-contains-end', line_of(ls, n, el, e), info)
        ctx.law('C13.inline-start-column-is-offset-in-line', sc == s - ls[sl], info)
        ctx.law('C13.inline-end-column-is-offset-in-line', ec == e - ls[el], info)
        if el > sl: ctx.cover('multi-line-range')
        else: ctx.cover('single-line-range')
        if sl == n - 1: ctx.cover('range-past-last-line-start')
        return info

    def finish_violation(self, ctx, v):
        v['role'] = 'general'
        v['input_tree'] = ctx.input_desc

    def replay(self, v, driver):
        """kernel is private: replay through the public parser with a text that realises the line table"""
        m = v.get('model') or {}
        n = v['input_tree']['n']
        ls = [m.get('ls%d' % i, 0) for i in range(n)]
        v['replay_verdict'] = 'kernel-level counterexample (private fn): line table %s, range %s..%s' % (ls, m.get('start'), m.get('end'))
        # realise: lines of 'x' with LF so that line i starts at ls[i]; put a link so that its byte range is start..end when possible
        if ls and max(ls) < 5000 and m.get('start', 0) < 6000 and m.get('end', 0) < 6000:
            text, script = realise(ls, m.get('start', 0), m.get('end', 0))
            if script:
                res = driver.run(script)
                v['replay_script'], v['replay_result'] = script, res
                exp_line = max(i for i in range(n) if ls[i] <= m.get('start', 0))
                got = res[0]
                ok = isinstance(got, dict) and got.get('start') == [exp_line, m.get('start', 0) - ls[exp_line]]
                v['replay_verdict'] += '; native link position %s, expected start %s' % (got, [exp_line, m.get('start', 0) - ls[exp_line]])
                return not ok
        return True     # cannot be realised as text: accept the kernel-level verdict (stated in evidence)

def realise(ls, start, end):
    """text whose k-th line starts at ls[k] (LF endings), with a link spanning bytes start..end if it fits"""
    if end - start < 6:
        return None, None
    body = []
    for a, b in zip(ls, ls[1:]):
        body.append('x' * (b - a - 1) + '\n')
    text = ''.join(body)
    if len(text) != ls[-1]:
        return None, None
    text = text + 'x' * 8
    link = '[' + 'y' * (end - start - 5) + '](z)'
    if end > len(text) + 1000:
        return None, None
    text = (text + 'x' * max(0, end - len(text)))
    text = text[:start] + link + text[end:]
    if '\n' in link or text.count('\n') != len(ls) - 1:
        return None, None
    return text, [{'op': 'link_pos', 'text': text}]

class LineStartsHarness(Harness):
    """H13b: line_starts on strings given by line structure (symbolic line lengths, LF / CRLF terminators)"""
    name = 'line_starts'
    real_functions = ('markdown::reader::line_starts',)
    required_covers = ('crlf', 'lf', 'no-final-newline', 'empty-line')

    def __init__(self, prog, tier='quick'):
        Harness.__init__(self, prog, tier)
        self.max_lines = 3 if tier == 'quick' else 5
        self.bounds = {'lines': '0..%d' % self.max_lines, 'line_length': 'symbolic, < 2^20 bytes', 'terminators': ['\\n', '\\r\\n', 'none on the last line']}

    def run(self, ctx, ex):
        k = ctx.choose(self.max_lines + 1)
        lines, terms = [], []
        for i in range(k):
            n = ctx.sym_bv('len%d' % i, 64)
            ctx.assume(z3.ULT(n, 1 << 20))
            last = (i == k - 1)
            t = ('\n', '\r\n', '')[ctx.choose(3 if last else 2)]
            if t == '':
                ctx.assume(n != 0)       # an unterminated empty last line does not exist
            lines.append((n, t)); terms.append(t)
        ctx.input_desc = {'terms': terms}
        ctx.lines = lines
        s = Ref(Cell(natives.LineStr(lines)))
        r = ex.call('line_starts', [s])
        got = [c.v for c in r.items]
        info = {'terms': [repr(t) for t in terms], 'result': [str(x) for x in got]}
        ctx.law('C13.line-table-has-entry-per-line', len(got) >= max(k, 1), info)
        if len(got) < max(k, 1):
            return info
        true = 0
        total = 0
        for n, t in lines:
            total = total + n + len(t)
        for i in range(k):
            ctx.law('C13.line-%d-starts-at-its-byte-offset' % i, got[i] == true, dict(info, line=i))
            true = true + lines[i][0] + len(lines[i][1])
        if k == 0:
            ctx.law('C13.line-0-starts-at-its-byte-offset', got[0] == 0, info)
        for j in range(k, len(got)):
            # sentinel entries must not be selectable for any offset inside the text
            ctx.law('C13.sentinel-entry-not-before-end-of-text', z3.UGE(got[j], total) if not isinstance(got[j], int) or not isinstance(total, int) else got[j] >= total, dict(info, entry=j))
        if '\r\n' in terms: ctx.cover('crlf')
        if '\n' in terms: ctx.cover('lf')
        if '' in terms: ctx.cover('no-final-newline')
        if k >= 2 and ctx.check(lines[0][0] == 0): ctx.cover('empty-line')
        return info

    def finish_violation(self, ctx, v):
        terms = ctx.input_desc['terms']
        v['role'] = 'crlf' if '\r\n' in terms else 'general'
        # small model for replay
        small = ctx.model(z3.And(*[z3.ULE(n, 6) for n, t in ctx.lines])) if ctx.lines else {}
        v['input_tree'] = {'terms': terms, 'lens': [(small or v['model'] or {}).get('len%d' % i, 1) for i in range(len(terms))]}

    def replay(self, v, driver):
        t = v['input_tree']
        text = ''.join('x' * n + term for n, term in zip(t['lens'], t['terms']))
        if text and not text.endswith('\n'):
            text += '\n'
        k = text.count('\n')
        text += '\n[y](z)\n'
        script = [{'op': 'link_pos', 'text': text}]
        res = driver.run(script)
        v['replay_script'], v['replay_result'] = script, res
        got = res[0]
        ok = isinstance(got, dict) and got.get('start') == [k + 1, 0]
        v['replay_verdict'] = 'native link position %s, expected start %s' % (got, [k + 1, 0])
        return not ok
