"""H-urlkind: the decision `is this link target a note or an external URL` (model::is_ref_url) over every ASCII string up to
a bounded length, bytes symbolic.  Reference: the statement's rule - a target is external exactly when it starts, ignoring
ASCII case, with `http://`, `https://` or `mailto:`; everything else names a note."""
import z3
from harness import *
import natives
from natives import SymBytes

class UrlKindHarness(Harness):
    name = 'link_target_kind'
    real_functions = ('model::is_ref_url',)
    required_covers = ('external', 'note', 'scheme-in-upper-case')

    def __init__(self, prog, tier='quick'):
        Harness.__init__(self, prog, tier)
        self.max_len = 10 if tier == 'quick' else 16
        self.bounds = {'url': 'every ASCII string of length 0..%d, each byte a symbolic 8-bit value < 128; non-ASCII targets are outside (to_lowercase is modelled for ASCII)' % self.max_len}

    def run(self, ctx, ex):
        n = ctx.choose(self.max_len + 1)
        bs = [ctx.sym_bv('url_byte_%d' % i, 8) for i in range(n)]
        for b in bs:
            ctx.assume(z3.ULT(b, 128))
        ctx.input_desc = {'url_length': n}
        r = ex.call('model::is_ref_url', [Ref(Cell(SymBytes(bs)))])
        def lower(b):
            return z3.If(z3.And(z3.UGE(b, 65), z3.ULE(b, 90)), b + 32, b)
        def starts(p):
            pb = p.encode()
            return z3.And([lower(bs[i]) == pb[i] for i in range(len(pb))]) if len(pb) <= n else z3.BoolVal(False)
        external = z3.Or(starts('http://'), starts('https://'), starts('mailto:'))
        rr = r if is_sym(r) else z3.BoolVal(bool(r))
        info = {'input': ctx.input_desc}
        for pid in ('C05', 'C06'):
            ctx.law('%s.a-target-is-external-exactly-when-it-has-an-external-scheme' % pid, rr == z3.Not(external), info)
        if ctx.check(z3.And(rr == False)) : ctx.cover('external')
        if ctx.check(z3.And(rr == True)): ctx.cover('note')
        if n >= 7 and ctx.check(z3.And(external, bs[0] == ord('H'))): ctx.cover('scheme-in-upper-case')
        return info

    def finish_violation(self, ctx, v):
        m = v.get('model') or {}
        n = (getattr(ctx, 'input_desc', {}) or {}).get('url_length', 0)
        url = ''.join(chr(m.get('url_byte_%d' % i, 0)) for i in range(n))
        v['role'] = 'general'
        v['input_tree'] = {'url': url}

    def replay(self, v, driver):
        url = v['input_tree']['url']
        script = [{'op': 'is_ref_url', 'url': url}]
        res = driver.run(script, timeout=60)
        v['replay_script'], v['replay_result'] = script, res
        got = res[-1]
        low = url.lower()
        expected = not (low.startswith('http://') or low.startswith('https://') or low.startswith('mailto:'))
        v['replay_verdict'] = 'native is_ref_url(%r) = %r, the rule says %r' % (url, got, expected)
        return isinstance(got, bool) and got != expected
