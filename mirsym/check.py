import os, sys, argparse, json
HERE = os.path.dirname(os.path.abspath(__file__))
sys.path.insert(0, HERE)

def main():
    ap = argparse.ArgumentParser()
    ap.add_argument('pid')
    ap.add_argument('--tier', default=os.environ.get('VERIF_TIER', 'quick'))
    ap.add_argument('--workers', type=int, default=int(os.environ.get('VERIF_WORKERS', '16')))
    ap.add_argument('--replay')
    args = ap.parse_args()
    seed = int(os.environ.get('VERIF_SEED', '0') or 0)
    if args.replay:
        import runner
        d = json.load(open(args.replay))
        drv = runner.Driver()
        res = drv.run(d['script'])
        print(json.dumps(res)[:4000])
        print('recorded verdict:', d.get('verdict'))
        return 0
    import props, runner
    if args.pid not in props.PROPS:
        print('property %s is not claimed (see MANIFEST.json not_applicable)' % args.pid)
        return 2
    p = props.PROPS[args.pid]
    return runner.run_check(args.pid, args.tier, seed, p['specs'], p['notes'], args)

if __name__ == '__main__':
    sys.exit(main())
