"""E1: Kani cross-check of the scalar kernels on the real compiled code (thorough tier).
Copies the crates to a scratch directory outside /repo and /verif, attaches the harness file as a child module
(`#[cfg(kani)] #[path = ".."] mod verif_kani;`), runs cargo kani per harness with a time cap, removes the scratch copy."""
import os, re, shutil, subprocess, sys, tempfile, time

VERIF = os.path.dirname(os.path.dirname(os.path.abspath(__file__)))
REPO = os.environ.get('VERIF_REPO', '/repo')

TARGETS = {
    # harness file -> (module source file it is attached to, [harness names])
    'reader_kernels.rs': ('crates/liwe/src/markdown/reader.rs', ['k13_to_inline_range', 'k13_to_line_range', 'k06_link_kind_round_trip']),
    'sections_kernels.rs': ('crates/liwe/src/graph/sections_builder.rs', ['k07_ranges_tile']),
}

def run(harness_prefixes, cap_s=900):
    """returns list of dicts: harness, status in {'SUCCESSFUL','FAILED','INCONCLUSIVE'}, checks, time, cover"""
    scratch = tempfile.mkdtemp(prefix='verif-kani-', dir=os.environ.get('VERIF_KANI_TMP', '/tmp'))
    out = []
    try:
        for item in ('Cargo.toml', 'Cargo.lock', 'crates'):
            src = os.path.join(REPO, item)
            dst = os.path.join(scratch, item)
            if os.path.isdir(src):
                shutil.copytree(src, dst, ignore=shutil.ignore_patterns('target'))
            else:
                shutil.copy(src, dst)
        wanted = []
        for hf, (mod, names) in TARGETS.items():
            names = [n for n in names if any(n.startswith(p) for p in harness_prefixes)]
            if not names:
                continue
            with open(os.path.join(scratch, mod), 'a') as f:
                f.write('\n#[cfg(kani)]\n#[path = "%s"]\nmod verif_kani;\n' % os.path.join(VERIF, 'kani', hf))
            wanted += names
        env = dict(os.environ, CARGO_NET_OFFLINE='true')
        for name in wanted:
            t0 = time.time()
            try:
                p = subprocess.run(['cargo', 'kani', '-p', 'liwe', '--harness', name, '--target-dir', os.path.join(scratch, 'kani-target'),
                                    '--output-format', 'regular'], cwd=scratch, env=env, stdout=subprocess.PIPE, stderr=subprocess.STDOUT,
                                   text=True, timeout=cap_s)
                text = p.stdout
                m = re.search(r'VERIFICATION:- (\w+)', text)
                status = m.group(1) if m else 'INCONCLUSIVE'
                if 'Status: ERROR' in text or 'unwinding assertion' in text and 'FAILURE' in text.split('unwinding assertion')[0][-200:]:
                    status = 'INCONCLUSIVE' if status != 'FAILED' else status
                checks = re.search(r'\*\* (\d+) of (\d+) failed', text)
                covers = re.findall(r'Check \d+: .*?cover.*?\n\s+- Status: (\w+)', text)
                failed = re.findall(r'Status: FAILURE\n\s+- Description: "([^"]*)"', text)
                out.append({'harness': name, 'status': status, 'checks': int(checks.group(2)) if checks else None,
                            'failed_checks': failed[:5], 'covers': covers, 'wall_s': round(time.time() - t0, 1),
                            'verification_time': (re.search(r'Verification Time: ([\d.]+)s', text) or [None, None])[1]})
            except subprocess.TimeoutExpired:
                out.append({'harness': name, 'status': 'INCONCLUSIVE', 'why': 'time cap %ds' % cap_s, 'wall_s': round(time.time() - t0, 1)})
    finally:
        shutil.rmtree(scratch, ignore_errors=True)
    return out

if __name__ == '__main__':
    import json
    print(json.dumps(run(sys.argv[1:] or ['k']), indent=1))
