"""H3b / H13c: Document::link_at (block_at_position, line_range, child_inlines, link_at_position) over documents with
symbolic block line ranges, symbolic link spans and a symbolic cursor position."""
import z3
from harness import *

def _ult(a, b):
    return z3.ULT(a, b) if (z3.is_expr(a) or z3.is_expr(b)) else z3.BoolVal(a < b)
def _ule(a, b):
    return z3.ULE(a, b) if (z3.is_expr(a) or z3.is_expr(b)) else z3.BoolVal(a <= b)
def _eq(a, b):
    return (a == b) if (z3.is_expr(a) or z3.is_expr(b)) else z3.BoolVal(a == b)
def pos_lt(a, b):
    return z3.Or(_ult(a[0], b[0]), z3.And(_eq(a[0], b[0]), _ult(a[1], b[1])))
def pos_le(a, b):
    return z3.Or(_ult(a[0], b[0]), z3.And(_eq(a[0], b[0]), _ule(a[1], b[1])))

class PosHarness(Harness):
    name = 'link_at_position'
    fresh_solver_mode = True
    real_functions = ('Document::link_at', 'Document::block_at_position', 'DocumentBlock::block_at_position/child_blocks/line_range/child_inlines',
                      'DocumentInline::link_at_position/inline_range/child_inlines/is_link')
    required_covers = ('link-found', 'no-link', 'multi-line-link', 'link-in-list', 'nested-inline-link')

    def __init__(self, prog, tier='quick', mode='inline'):
        Harness.__init__(self, prog, tier)
        self.mode = mode
        self.name = 'link_at_position_' + mode
        if mode == 'inline':
            self.max_blocks = 1
            self.required_covers = ('link-found', 'no-link', 'multi-line-link', 'nested-inline-link')
        else:
            self.max_blocks = 2 if tier == 'quick' else 3
            self.required_covers = ('link-found', 'no-link', 'link-in-list', 'nested-inline-link')
        self.bounds = {'blocks': self.max_blocks, 'links_per_block': 1, 'positions': 'any (line, character) below 2^16 (values are only compared)',
                       'line_ranges / link spans': 'inline mode: symbolic, ordered, spans inside their block; blocks mode: concrete two-line blocks with gaps 0/1, symbolic cursor line'}

    def run(self, ctx, ex):
        h = self.h
        self.n = 0
        self.links = []         # (span start(line,char), span end, url)
        if self.mode == 'inline':
            self.cur = [self.sym(ctx, 'L0')]          # running lower bound for line numbers
            ctx.assume(z3.ULT(self.cur[0], 1 << 14))
        else:
            self.cur = [0]
        desc = []
        blocks = []
        nb = 1 + ctx.choose(self.max_blocks)
        for i in range(nb):
            b, d = self.block(ctx, top=True)
            blocks.append(b); desc.append(d)
        doc = h.document(blocks)
        line, ch = self.sym(ctx, 'line'), (self.sym(ctx, 'character') if self.mode == 'inline' else 0)
        ctx.input_desc = desc
        info0 = {'doc': desc}
        def query():
            r = ex.call('Document::link_at', [Ref(Cell(doc)), h.pos(line, ch)])
            got = None
            if r.vi == 1:
                inl = r.f[0].v
                got = inl.f[0].v.get('target').get('url') if inl.vn == 'Link' else '?' + inl.vn
            info = {'doc': desc, 'got': got}
            p = (line, ch)
            inside = {url: z3.And(pos_le(s, p), pos_lt(p, e)) for s, e, url in self.links}
            if got is None:
                ctx.law('C13.no-link-reported-only-outside-every-span', z3.Not(z3.Or(*inside.values())) if inside else True, info)
                ctx.cover('no-link')
            else:
                ctx.law('C13.reported-link-contains-cursor', inside.get(got, False), info)
                ctx.cover('link-found')
                s, e, _ = [l for l in self.links if l[2] == got][0]
                if self.mode == 'inline' and ctx.check(z3.ULT(s[0], e[0])): ctx.cover('multi-line-link')
            return got
        outcomes = ctx.forall(query)        # link_at is pure: all cursor positions explored locally
        return {'doc': desc, 'outcomes': sorted(set(str(o) for o in outcomes))}

    def sym(self, ctx, name):
        """usize value below 2^16 (only compared, never computed with: stated bound)"""
        return z3.ZeroExt(48, ctx.sym_bv(name, 16))

    def fresh_range(self, ctx, lines_min=1):
        """a line range [a, b) after everything generated so far"""
        self.n += 1
        if self.mode != 'inline':
            # concrete geometry (gap of 0 or 1 line, two-line blocks); the cursor stays symbolic
            lo = self.cur[-1] if isinstance(self.cur[-1], int) else 0
            a = lo + ctx.choose(2)
            b = a + 2
            self.cur.append(b)
            return a, b
        a, b = self.sym(ctx, 'a%d' % self.n), self.sym(ctx, 'b%d' % self.n)
        ctx.assume(z3.ULE(self.cur[-1], a)); ctx.assume(z3.ULT(a, b)); ctx.assume(z3.ULT(b, 1 << 15))
        self.cur.append(b)
        return a, b

    def link(self, ctx, a, b):
        """a link whose span lies inside lines [a, b)"""
        self.n += 1
        n = self.n
        if self.mode == 'inline':
            sl, sc, el, ec = [self.sym(ctx, '%s%d' % (x, n)) for x in ('sl', 'sc', 'el', 'ec')]
            ctx.assume(z3.And(z3.ULE(a, sl), z3.ULE(sl, el), z3.ULT(el, b)))
            ctx.assume(pos_lt((sl, sc), (el, ec)))
        else:
            sl, sc, el, ec = a, 0, b, 0         # the link spans exactly the lines of its block
        url = 'u%d' % n
        self.links.append(((sl, sc), (el, ec), url))
        return self.h.ilink(url, 'x', rng=self.h.rng(self.h.pos(sl, sc), self.h.pos(el, ec)))

    def text_inlines(self, ctx, a, b, variants=3):
        h = self.h
        k = ctx.choose(variants)       # no link, plain link, link nested in emphasis
        if k == 0:
            return [h.istr('t')], 'text'
        l = self.link(ctx, a, b)
        if k == 1:
            return [h.istr('t'), l], 'text+link'
        ctx.cover('nested-inline-link')
        e = self.prog.mk_struct('model::document::Emph', inlines=h.vec([l]), inline_range=h.rng(h.pos(0, 0), h.pos(0, 0)))
        return [h.istr('t'), self.prog.mk_enum('model::document::DocumentInline', 'Emph', e)], 'text+emph(link)'

    def block(self, ctx, top):
        h = self.h
        kinds = ('Para', 'Header', 'Code', 'Bullet', 'Quote') if top else ('Para', 'Code')
        if self.mode == 'inline':
            kinds = ('Para', 'Header')
        k = kinds[ctx.choose(len(kinds))]
        if k in ('Para', 'Header'):
            a, b = self.fresh_range(ctx)
            inl, d = self.text_inlines(ctx, a, b)
            lr = h.rng(a, b)
            return (h.para(inl, lr) if k == 'Para' else h.header(1, inl, lr)), '%s(%s)' % (k, d)
        if k == 'Code':
            a, b = self.fresh_range(ctx)
            return h.code('c', None, h.rng(a, b)), 'Code'
        if k == 'Quote':
            a, b = self.fresh_range(ctx)
            save = self.cur[-1]
            self.cur.append(a)
            a2, b2 = (a, b) if self.mode != 'inline' else self.fresh_range(ctx)
            if self.mode == 'inline': ctx.assume(z3.ULE(b2, b))
            inl, d = self.text_inlines(ctx, a2, b2)
            self.cur.append(b)
            return h.quote([h.para(inl, h.rng(a2, b2))], h.rng(a, b)), 'Quote[Para(%s)]' % d
        # bullet list: 1..2 items, an item may be empty
        items, ds = [], []
        for i in range(1 + ctx.choose(2)):
            if ctx.choose(3) == 2:
                items.append([]); ds.append('')
                continue
            a, b = self.fresh_range(ctx)
            inl, d = self.text_inlines(ctx, a, b, 2 if self.tier == 'quick' else 3)
            if 'link' in d: ctx.cover('link-in-list')
            items.append([h.para(inl, h.rng(a, b))]); ds.append('Para(%s)' % d)
        return h.bullets(items), 'Bullet[%s]' % ' | '.join(ds)

    def on_panic(self, ctx, ex, e, res):
        ctx.violations.append({'law': 'C03.no-panic', 'model': ctx.model(),
                               'info': {'msg': res['detail'], 'where': res.get('where'), 'doc': getattr(ctx, 'input_desc', None)}})

    def finish_violation(self, ctx, v):
        d = ctx.input_desc or []
        v['input_tree'] = {'doc': d, 'model': v.get('model')}
        v['role'] = 'general'
        if v['law'] == 'C03.no-panic' and any(x.startswith('Bullet[ |') or x == 'Bullet[]' for x in d if isinstance(x, str)):
            v['role'] = 'list-with-empty-first-item'

    def replay(self, v, driver):
        """realise the document as Markdown text with the model's geometry where possible"""
        d = v['input_tree']['doc']
        if v['law'] == 'C03.no-panic':
            text = ''
            for b in d:
                if b.startswith('Bullet['):
                    items = b[7:-1].split(' | ')
                    for it in items:
                        text += '-' + (' [x](u)' if 'link' in it else (' t' if it else '')) + '\n'
                    text += '\n'
                else:
                    text += ('[x](u)' if 'link' in b else 't') + '\n\n'
            script = [{'op': 'url_at', 'text': text, 'line': 0, 'character': 0}, {'op': 'url_at', 'text': text, 'line': 1, 'character': 3}]
            res = driver.run(script)
            v['replay_script'], v['replay_result'] = script, res
            bad = any(isinstance(x, dict) and 'panic' in x for x in res)
            v['replay_verdict'] = 'native url_at on %r: %s' % (text, res)
            return bad
        # span law: a two-line link "[a\nb](u)" realises multi-line spans; single-line otherwise
        m = v['input_tree']['model'] or {}
        text = 't [design\ndocument](u9) t\n'
        script = [{'op': 'link_pos', 'text': text}]
        for (l, c) in ((0, 3), (0, 8), (1, 0), (1, 3), (1, 12), (0, 0), (1, 14)):
            script.append({'op': 'url_at', 'text': text, 'line': l, 'character': c})
        res = driver.run(script)
        v['replay_script'], v['replay_result'] = script, res
        span = res[0]
        bad = False
        for (l, c), r in zip(((0, 3), (0, 8), (1, 0), (1, 3), (1, 12), (0, 0), (1, 14)), res[1:]):
            inside = tuple(span['start']) <= (l, c) < tuple(span['end'])
            if (r == 'u9') != inside:
                bad = True
        v['replay_verdict'] = 'native link span %s; url_at results %s' % (span, res[1:])
        return bad
