"""Native models of functions outside the crates under test (std, itertools, relative-path, ...).
Each model is a few lines; the list actually hit by a run is reported in the evidence file."""
import re
import z3
from values import *
from engine import Panic, Unsupported, Infeasible, ty_head, ordering, parse_callee, binop
from mirparse import strip_generics

NATIVES = {}
TRAIT_NATIVES = {}

def native(*keys):
    def deco(f):
        for k in keys:
            NATIVES[k] = f
        return f
    return deco

def tnative(*keys):
    def deco(f):
        for k in keys:
            TRAIT_NATIVES[k] = f
        return f
    return deco

def deref(v):
    while type(v) in (Ref, BoxV, ArcV):
        v = v.cell.v
    return v

def as_str(v):
    v = deref(v)
    if isinstance(v, str):
        return v
    if type(v) is SymStr:
        return v
    if type(v) is Enum and v.ty == 'Cow':
        return as_str(v.f[0].v)
    raise Unsupported('expected string, got %r' % (v,))

def strref(s):
    return Ref(Cell(s))

def items(v):
    v = deref(v)
    if type(v) in (VecV, SliceV):
        return v.items
    if type(v) is Tup:
        return v.f
    raise Unsupported('expected vec/slice, got %r' % (v,))

def truth(ex, v):
    return ex.ctx.branch(v)

def eq_val(a, b):
    """structural equality; returns Python bool or z3 Bool"""
    a, b = deref(a), deref(b)
    ta, tb = type(a), type(b)
    if is_sym(a) or is_sym(b):
        return binop('Eq', a, b, None)
    if ta is Struct and tb is Struct:
        return and_all(eq_val(x.v, y.v) for x, y in zip(a.f, b.f)) if a.ty == b.ty else False
    if ta is Enum and tb is Enum:
        if a.ty != b.ty or a.vi != b.vi:
            return False
        return and_all(eq_val(x.v, y.v) for x, y in zip(a.f, b.f))
    if ta is Tup and tb is Tup:
        return and_all(eq_val(x.v, y.v) for x, y in zip(a.f, b.f))
    if ta in (VecV, SliceV) and tb in (VecV, SliceV):
        if len(a.items) != len(b.items):
            return False
        return and_all(eq_val(x.v, y.v) for x, y in zip(a.items, b.items))
    if ta is SymStr or tb is SymStr:
        return ta is tb and a.tok == b.tok
    if ta is MapV and tb is MapV:
        if set(a.d) != set(b.d):
            return False
        return and_all(eq_val(a.d[k][1].v, b.d[k][1].v) for k in a.d)
    if ta is SetV and tb is SetV:
        return set(a.d) == set(b.d)
    if ta is Opaque or tb is Opaque:
        raise Unsupported('eq on opaque %r %r' % (a, b))
    return a == b

def and_all(it):
    acc = []
    for x in it:
        if x is False:
            return False
        if x is True:
            continue
        acc.append(x)
    if not acc:
        return True
    return z3.And(*acc) if len(acc) > 1 else acc[0]

def cmp_val(ex, a, b):
    """total order on concrete values -> -1/0/1 (forks on symbolic ints)"""
    a, b = deref(a), deref(b)
    if is_sym(a) or is_sym(b):
        if truth(ex, binop('Lt', a, b, 'usize')):
            return -1
        if truth(ex, binop('Eq', a, b, 'usize')):
            return 0
        return 1
    ta = type(a)
    if ta in (Struct, Tup, Enum):
        if ta is Enum:
            if a.vi != b.vi:
                return -1 if a.vi < b.vi else 1
        for x, y in zip(a.f, b.f):
            c = cmp_val(ex, x.v, y.v)
            if c:
                return c
        return 0
    if ta in (VecV, SliceV):
        for x, y in zip(a.items, b.items):
            c = cmp_val(ex, x.v, y.v)
            if c:
                return c
        return (len(a.items) > len(b.items)) - (len(a.items) < len(b.items))
    if isinstance(a, str) and isinstance(b, str):
        ab, bb = a.encode(), b.encode()
        return (ab > bb) - (ab < bb)
    return (a > b) - (a < b)

# ------------------------------------------------------------------ iterators
class Stop:
    pass
STOP = Stop()

class It:
    def next(self, ex):
        raise NotImplementedError
    def drain(self, ex):
        out = []
        while True:
            v = self.next(ex)
            if v is STOP:
                return out
            out.append(v)
    def clone_iter(self):
        raise Unsupported('clone of iterator ' + type(self).__name__)

class ListIt(It):
    def __init__(self, vals, i=0):
        self.vals, self.i, self.j = vals, i, len(vals)
    def next(self, ex):
        if self.i >= self.j:
            return STOP
        v = self.vals[self.i]; self.i += 1
        return v
    def next_back(self, ex):
        if self.i >= self.j:
            return STOP
        self.j -= 1
        return self.vals[self.j]
    def clone_iter(self):
        it = ListIt(self.vals, self.i); it.j = self.j
        return it
    def remaining(self):
        return self.vals[self.i:self.j]

class RangeIt(It):
    """wraps a Range struct value (by reference, mutated in place)"""
    def __init__(self, rng):
        self.rng = rng
    def next(self, ex):
        return range_next(ex, self.rng)

def range_next(ex, rng):
    s, e = rng.f[0].v, rng.f[1].v
    if truth(ex, binop('Lt', s, e, 'usize')):
        rng.f[0].v = binop('Add', s, 1, 'usize')
        if is_sym(rng.f[0].v):
            rng.f[0].v = z3.simplify(rng.f[0].v)
        return s
    return STOP

class MapIt(It):
    def __init__(self, inner, f): self.inner, self.f = inner, f
    def next(self, ex):
        v = self.inner.next(ex)
        if v is STOP: return STOP
        return ex.call_value(self.f, [Cell(v)])
    def next_back(self, ex):
        v = self.inner.next_back(ex)
        if v is STOP: return STOP
        return ex.call_value(self.f, [Cell(v)])
    def clone_iter(self): return MapIt(self.inner.clone_iter(), self.f)

class FilterIt(It):
    def __init__(self, inner, f): self.inner, self.f = inner, f
    def next(self, ex):
        while True:
            v = self.inner.next(ex)
            if v is STOP: return STOP
            if truth(ex, ex.call_value(self.f, [Cell(Ref(Cell(v)))])):
                return v
    def next_back(self, ex):
        while True:
            v = self.inner.next_back(ex)
            if v is STOP: return STOP
            if truth(ex, ex.call_value(self.f, [Cell(Ref(Cell(v)))])):
                return v
    def clone_iter(self): return FilterIt(self.inner.clone_iter(), self.f)

class FilterMapIt(It):
    def __init__(self, inner, f): self.inner, self.f = inner, f
    def next(self, ex):
        while True:
            v = self.inner.next(ex)
            if v is STOP: return STOP
            r = ex.call_value(self.f, [Cell(v)])
            if r.vi == 1:
                return r.f[0].v

class EnumerateIt(It):
    def __init__(self, inner): self.inner, self.n = inner, 0
    def next(self, ex):
        v = self.inner.next(ex)
        if v is STOP: return STOP
        r = Tup([Cell(self.n), Cell(v)]); self.n += 1
        return r
    def clone_iter(self):
        it = EnumerateIt(self.inner.clone_iter()); it.n = self.n; return it

class PositionsIt(It):
    def __init__(self, inner, f): self.inner, self.f, self.n = inner, f, 0
    def next(self, ex):
        while True:
            v = self.inner.next(ex)
            if v is STOP: return STOP
            i = self.n; self.n += 1
            if truth(ex, ex.call_value(self.f, [Cell(v)])):
                return i

class ChainIt(It):
    def __init__(self, a, b): self.a, self.b = a, b
    def next(self, ex):
        if self.a is not None:
            v = self.a.next(ex)
            if v is not STOP: return v
            self.a = None
        return self.b.next(ex)

class FlatMapIt(It):
    def __init__(self, inner, f): self.inner, self.f, self.cur = inner, f, None
    def next(self, ex):
        while True:
            if self.cur is not None:
                v = self.cur.next(ex)
                if v is not STOP: return v
                self.cur = None
            x = self.inner.next(ex)
            if x is STOP: return STOP
            r = ex.call_value(self.f, [Cell(x)]) if self.f is not None else x
            self.cur = to_iter(ex, r)

class PeekableIt(It):
    def __init__(self, inner): self.inner, self.peeked = inner, None
    def next(self, ex):
        if self.peeked is not None:
            v = self.peeked[0]; self.peeked = None
            return v
        return self.inner.next(ex)
    def peek(self, ex):
        if self.peeked is None:
            self.peeked = (self.inner.next(ex),)
        return self.peeked[0]

class SkipIt(It):
    def __init__(self, inner, n): self.inner, self.n = inner, n
    def next(self, ex):
        while self.n > 0:
            self.n -= 1
            if self.inner.next(ex) is STOP: return STOP
        return self.inner.next(ex)
    def clone_iter(self): return SkipIt(self.inner.clone_iter(), self.n)

class TakeIt(It):
    def __init__(self, inner, n): self.inner, self.n = inner, n
    def next(self, ex):
        if self.n <= 0: return STOP
        self.n -= 1
        return self.inner.next(ex)

class TakeWhileIt(It):
    def __init__(self, inner, f): self.inner, self.f, self.done = inner, f, False
    def next(self, ex):
        if self.done: return STOP
        v = self.inner.next(ex)
        if v is STOP: return STOP
        if truth(ex, ex.call_value(self.f, [Cell(Ref(Cell(v)))])):
            return v
        self.done = True
        return STOP

class SkipWhileIt(It):
    def __init__(self, inner, f): self.inner, self.f, self.started = inner, f, False
    def next(self, ex):
        while True:
            v = self.inner.next(ex)
            if v is STOP: return STOP
            if self.started: return v
            if not truth(ex, ex.call_value(self.f, [Cell(Ref(Cell(v)))])):
                self.started = True
                return v

class ZipIt(It):
    def __init__(self, a, b): self.a, self.b = a, b
    def next(self, ex):
        x = self.a.next(ex)
        if x is STOP: return STOP
        y = self.b.next(ex)
        if y is STOP: return STOP
        return Tup([Cell(x), Cell(y)])

class ClonedIt(It):
    def __init__(self, inner): self.inner = inner
    def next(self, ex):
        v = self.inner.next(ex)
        if v is STOP: return STOP
        return clone_val(deref_once(v))
    def next_back(self, ex):
        v = self.inner.next_back(ex)
        if v is STOP: return STOP
        return clone_val(deref_once(v))
    def clone_iter(self): return ClonedIt(self.inner.clone_iter())

class RevIt(It):
    def __init__(self, inner): self.inner = inner
    def next(self, ex):
        if hasattr(self.inner, 'next_back'):
            return self.inner.next_back(ex)
        if not isinstance(self.inner, ListIt):
            self.inner = ListIt(self.inner.drain(ex))
        return self.inner.next_back(ex)

def deref_once(v):
    if type(v) is Ref:
        return v.cell.v
    return v

def to_iter(ex, v):
    """IntoIterator::into_iter on a value"""
    if isinstance(v, It):
        return v
    t = type(v)
    if t is Ref:
        inner = v.cell.v
        ti = type(inner)
        if isinstance(inner, It):
            return inner
        if ti in (VecV, SliceV):
            return ListIt([Ref(c) for c in inner.items])
        if ti is MapV:
            return ListIt([Tup([Cell(Ref(Cell(kv))), Cell(Ref(c))]) for k, (kv, c) in inner.d.items()])
        if ti is SetV:
            return ListIt([Ref(Cell(kv)) for kv in inner.d.values()])
        if ti is Enum and inner.ty == 'Option':
            return ListIt([Ref(inner.f[0])] if inner.vi == 1 else [])
        if ti is Struct and inner.ty.endswith('Range'):
            return RangeIt(inner)
        if ti is Ref:
            return to_iter(ex, inner)
        raise Unsupported('into_iter on &%r' % (inner,))
    if t is VecV:
        return ListIt([c.v for c in v.items])
    if t is MapV:
        return ListIt([Tup([Cell(kv), Cell(c.v)]) for k, (kv, c) in v.d.items()])
    if t is SetV:
        return ListIt(list(v.d.values()))
    if t is Enum and v.ty == 'Option':
        return ListIt([v.f[0].v] if v.vi == 1 else [])
    if t is Enum and v.ty == 'Result':
        return ListIt([v.f[0].v] if v.vi == 0 else [])
    if t is Struct and v.ty.endswith('Range'):
        return RangeIt(v)
    raise Unsupported('into_iter on %r' % (v,))

def iter_of(v):
    """the Python iterator behind an iterator value / &mut iterator"""
    while type(v) is Ref:
        v = v.cell.v
    if isinstance(v, It):
        return v
    if type(v) is Struct and v.ty.endswith('Range'):
        return RangeIt(v)
    raise Unsupported('not an iterator: %r' % (v,))

def opt(v):
    return NONE() if v is STOP else SOME(v)

@tnative(('IntoIterator', 'into_iter'))
def _into_iter(ex, c, a, dt):
    return to_iter(ex, a[0])

@native(('slice', 'iter'), ('Vec', 'iter'), ('slice', 'iter_mut'), ('Vec', 'iter_mut'), ('HashMap', 'iter'), ('HashSet', 'iter'),
        ('Option', 'iter'), ('HashMap', 'iter_mut'), ('BTreeMap', 'iter'))
def _iter(ex, c, a, dt):
    v = a[0]
    if type(v) is not Ref:
        v = Ref(Cell(v))
    return to_iter(ex, v)

@native(('HashMap', 'keys'), ('BTreeMap', 'keys'))
def _keys(ex, c, a, dt):
    m = deref(a[0])
    return ListIt([Ref(Cell(kv)) for k, (kv, cc) in m.d.items()])

@native(('HashMap', 'values'), ('BTreeMap', 'values'), ('HashMap', 'values_mut'))
def _values(ex, c, a, dt):
    m = deref(a[0])
    return ListIt([Ref(cc) for k, (kv, cc) in m.d.items()])

@native(('HashMap', 'into_keys'))
def _into_keys(ex, c, a, dt):
    return ListIt([kv for k, (kv, cc) in a[0].d.items()])

@native(('HashMap', 'into_values'))
def _into_values(ex, c, a, dt):
    return ListIt([cc.v for k, (kv, cc) in a[0].d.items()])

@tnative(('Iterator', 'next'))
def _next(ex, c, a, dt):
    return opt(iter_of(a[0]).next(ex))

@tnative(('DoubleEndedIterator', 'next_back'))
def _next_back(ex, c, a, dt):
    it = iter_of(a[0])
    if not hasattr(it, 'next_back'):
        raise Unsupported('next_back on ' + type(it).__name__)
    return opt(it.next_back(ex))

@tnative(('Iterator', 'map'), ('ParallelIterator', 'map'))
def _map(ex, c, a, dt): return MapIt(to_iter(ex, a[0]), a[1])
@tnative(('Iterator', 'filter'), ('ParallelIterator', 'filter'))
def _filter(ex, c, a, dt): return FilterIt(to_iter(ex, a[0]), a[1])
@tnative(('Iterator', 'filter_map'), ('ParallelIterator', 'filter_map'))
def _filter_map(ex, c, a, dt): return FilterMapIt(to_iter(ex, a[0]), a[1])
@tnative(('Iterator', 'enumerate'))
def _enumerate(ex, c, a, dt): return EnumerateIt(to_iter(ex, a[0]))
@tnative(('Itertools', 'positions'))
def _positions(ex, c, a, dt): return PositionsIt(to_iter(ex, a[0]), a[1])
@tnative(('Iterator', 'chain'))
def _chain(ex, c, a, dt): return ChainIt(to_iter(ex, a[0]), to_iter(ex, a[1]))
@tnative(('Iterator', 'flat_map'), ('ParallelIterator', 'flat_map'))
def _flat_map(ex, c, a, dt): return FlatMapIt(to_iter(ex, a[0]), a[1])
@tnative(('Iterator', 'flatten'), ('ParallelIterator', 'flatten'))
def _flatten(ex, c, a, dt): return FlatMapIt(to_iter(ex, a[0]), None)
@tnative(('Iterator', 'peekable'))
def _peekable(ex, c, a, dt): return PeekableIt(to_iter(ex, a[0]))
@tnative(('Iterator', 'skip'))
def _skip(ex, c, a, dt): return SkipIt(to_iter(ex, a[0]), concrete_int(ex, a[1]))
@tnative(('Iterator', 'take'))
def _take(ex, c, a, dt): return TakeIt(to_iter(ex, a[0]), concrete_int(ex, a[1]))
@tnative(('Iterator', 'take_while'))
def _take_while(ex, c, a, dt): return TakeWhileIt(to_iter(ex, a[0]), a[1])
@tnative(('Iterator', 'skip_while'))
def _skip_while(ex, c, a, dt): return SkipWhileIt(to_iter(ex, a[0]), a[1])
@tnative(('Iterator', 'zip'))
def _zip(ex, c, a, dt): return ZipIt(to_iter(ex, a[0]), to_iter(ex, a[1]))
@tnative(('Iterator', 'cloned'), ('Iterator', 'copied'), ('ParallelIterator', 'cloned'))
def _cloned(ex, c, a, dt): return ClonedIt(to_iter(ex, a[0]))
@tnative(('Iterator', 'rev'))
def _rev(ex, c, a, dt): return RevIt(to_iter(ex, a[0]))
@tnative(('Iterator', 'by_ref'))
def _by_ref(ex, c, a, dt): return a[0]

@native(('Peekable', 'peek'))
def _peek(ex, c, a, dt):
    v = iter_of(a[0]).peek(ex)
    return NONE() if v is STOP else SOME(Ref(Cell(v)))

def concrete_int(ex, v):
    if isinstance(v, int):
        return v
    s = z3.simplify(v)
    if z3.is_bv_value(s):
        return s.as_long()
    raise Unsupported('symbolic count')

def collect_into(ex, vals, dt):
    h = ty_head(dt or 'Vec')
    if h in ('Vec', 'VecDeque', 'slice'):
        return VecV([Cell(v) for v in vals])
    if h in ('HashMap', 'BTreeMap'):
        m = MapV(h)
        for t in vals:
            map_insert(m, t.f[0].v, t.f[1].v)
        return m
    if h in ('HashSet', 'BTreeSet'):
        s = SetV(h)
        for v in vals:
            s.d[canon(v)] = v
        return s
    if h == 'String':
        return ''.join(as_str(v) if not isinstance(v, int) else chr(v) for v in vals)
    if h == 'Option':
        inner = dt[dt.index('<') + 1:-1]
        out = []
        for v in vals:
            if v.vi == 0:
                return NONE()
            out.append(v.f[0].v)
        return SOME(collect_into(ex, out, inner))
    if h == 'Result':
        inner = split_first_generic(dt)
        out = []
        for v in vals:
            if v.vi == 1:
                return v
            out.append(v.f[0].v)
        return OK(collect_into(ex, out, inner))
    raise Unsupported('collect into ' + str(dt))

def split_first_generic(dt):
    from rsrc import split_top
    inner = dt[dt.index('<') + 1:-1]
    return split_top(inner)[0]

@tnative(('Iterator', 'collect'), ('Itertools', 'collect_vec'), ('ParallelIterator', 'collect'), ('FromIterator', 'from_iter'))
def _collect(ex, c, a, dt):
    vals = to_iter(ex, a[0]).drain(ex)
    if c.method == 'collect_vec':
        return VecV([Cell(v) for v in vals])
    return collect_into(ex, vals, dt)

@tnative(('Iterator', 'count'))
def _count(ex, c, a, dt): return len(to_iter(ex, a[0]).drain(ex))
@tnative(('Iterator', 'last'))
def _last(ex, c, a, dt):
    vals = to_iter(ex, a[0]).drain(ex)
    return SOME(vals[-1]) if vals else NONE()
@tnative(('Iterator', 'nth'))
def _nth(ex, c, a, dt):
    it = iter_of(a[0])
    n = concrete_int(ex, a[1])
    v = STOP
    for _ in range(n + 1):
        v = it.next(ex)
        if v is STOP: break
    return opt(v)
@tnative(('Iterator', 'sum'))
def _sum(ex, c, a, dt):
    acc = 0
    for v in to_iter(ex, a[0]).drain(ex):
        acc = binop('Add', acc, deref(v), dt)
    return acc
@tnative(('Iterator', 'any'))
def _any(ex, c, a, dt):
    it = iter_of(a[0])
    while True:
        v = it.next(ex)
        if v is STOP: return False
        if truth(ex, ex.call_value(a[1], [Cell(v)])): return True
@tnative(('Iterator', 'all'))
def _all(ex, c, a, dt):
    it = iter_of(a[0])
    while True:
        v = it.next(ex)
        if v is STOP: return True
        if not truth(ex, ex.call_value(a[1], [Cell(v)])): return False
@tnative(('Iterator', 'find'), ('ParallelIterator', 'find_first'), ('ParallelIterator', 'find_any'))
def _find(ex, c, a, dt):
    it = iter_of(a[0]) if type(a[0]) is Ref else to_iter(ex, a[0])
    while True:
        v = it.next(ex)
        if v is STOP: return NONE()
        if truth(ex, ex.call_value(a[1], [Cell(Ref(Cell(v)))])): return SOME(v)
@tnative(('Iterator', 'find_map'))
def _find_map(ex, c, a, dt):
    it = iter_of(a[0]) if type(a[0]) is Ref else to_iter(ex, a[0])
    while True:
        v = it.next(ex)
        if v is STOP: return NONE()
        r = ex.call_value(a[1], [Cell(v)])
        if r.vi == 1: return r
@tnative(('Iterator', 'position'))
def _position(ex, c, a, dt):
    it = iter_of(a[0]) if type(a[0]) is Ref else to_iter(ex, a[0])
    i = 0
    while True:
        v = it.next(ex)
        if v is STOP: return NONE()
        if truth(ex, ex.call_value(a[1], [Cell(v)])): return SOME(i)
        i += 1
@tnative(('Iterator', 'for_each'), ('ParallelIterator', 'for_each'))
def _for_each(ex, c, a, dt):
    for v in to_iter(ex, a[0]).drain(ex):
        ex.call_value(a[1], [Cell(v)])
    return UNIT
@tnative(('Iterator', 'fold'))
def _fold(ex, c, a, dt):
    acc = a[1]
    it = to_iter(ex, a[0])
    while True:
        v = it.next(ex)
        if v is STOP: return acc
        acc = ex.call_value(a[2], [Cell(acc), Cell(v)])
@tnative(('Iterator', 'max'), ('Iterator', 'min'))
def _maxmin(ex, c, a, dt):
    vals = to_iter(ex, a[0]).drain(ex)
    if not vals: return NONE()
    best = vals[0]
    for v in vals[1:]:
        cm = cmp_val(ex, v, best)
        if (c.method == 'max' and cm >= 0) or (c.method == 'min' and cm < 0):
            best = v
    return SOME(best)
@tnative(('Iterator', 'max_by_key'), ('Iterator', 'min_by_key'))
def _maxmin_key(ex, c, a, dt):
    vals = to_iter(ex, a[0]).drain(ex)
    if not vals: return NONE()
    keyed = [(ex.call_value(a[1], [Cell(Ref(Cell(v)))]), v) for v in vals]
    best = keyed[0]
    for kv in keyed[1:]:
        cm = cmp_val(ex, kv[0], best[0])
        if (c.method == 'max_by_key' and cm >= 0) or (c.method == 'min_by_key' and cm < 0):
            best = kv
    return SOME(best[1])
@tnative(('Iterator', 'size_hint'))
def _size_hint(ex, c, a, dt):
    return Tup([Cell(0), Cell(NONE())])

def sort_vals(ex, vals, cmpf):
    """stable insertion merge sort driven by a comparator that may fork"""
    import functools
    return sorted(vals, key=functools.cmp_to_key(cmpf))

@tnative(('Itertools', 'sorted'))
def _sorted(ex, c, a, dt):
    vals = to_iter(ex, a[0]).drain(ex)
    return ListIt(sort_vals(ex, vals, lambda x, y: cmp_val(ex, x, y)))
@tnative(('Itertools', 'sorted_by'))
def _sorted_by(ex, c, a, dt):
    vals = to_iter(ex, a[0]).drain(ex)
    f = a[1]
    return ListIt(sort_vals(ex, vals, lambda x, y: ex.call_value(f, [Cell(Ref(Cell(x))), Cell(Ref(Cell(y)))]).vi - 1))
@tnative(('Itertools', 'sorted_by_key'))
def _sorted_by_key(ex, c, a, dt):
    vals = to_iter(ex, a[0]).drain(ex)
    f = a[1]
    keyed = [(ex.call_value(f, [Cell(Ref(Cell(v)))]), v) for v in vals]
    keyed = sort_vals(ex, keyed, lambda x, y: cmp_val(ex, x[0], y[0]))
    return ListIt([v for k, v in keyed])
@tnative(('Itertools', 'unique'))
def _unique(ex, c, a, dt):
    seen, out = set(), []
    for v in to_iter(ex, a[0]).drain(ex):
        k = canon(v)
        if k not in seen:
            seen.add(k); out.append(v)
    return ListIt(out)
@tnative(('Itertools', 'dedup'))
def _dedup(ex, c, a, dt):
    out = []
    for v in to_iter(ex, a[0]).drain(ex):
        if not out or not truth(ex, eq_val(out[-1], v)):
            out.append(v)
    return ListIt(out)
@tnative(('Itertools', 'join'))
def _itjoin(ex, c, a, dt):
    sep = as_str(a[1])
    return sep.join(display(ex, v) for v in iter_of(a[0]).drain(ex))

# ------------------------------------------------------------------ Range
@native(('Range', 'is_empty'))
def _range_is_empty(ex, c, a, dt):
    r = deref(a[0])
    return not truth(ex, binop('Lt', r.f[0].v, r.f[1].v, 'usize'))
@native(('Range', 'contains'), ('RangeInclusive', 'contains'))
def _range_contains(ex, c, a, dt):
    r = deref(a[0]); x = deref(a[1])
    if type(x) in (Struct, Tup):
        lo = cmp_val(ex, r.f[0].v, x) <= 0
        if not lo:
            return False
        hi = cmp_val(ex, x, r.f[1].v)
        return hi < 0 if c.head == 'Range' else hi <= 0
    lo = binop('Le', r.f[0].v, x, 'usize')
    hi = binop('Lt' if c.head == 'Range' else 'Le', x, r.f[1].v, 'usize')
    if lo is False or hi is False:
        return False
    if lo is True:
        return hi
    if hi is True:
        return lo
    return z3.And(lo, hi)
@native(('Range', 'len'))
def _range_len(ex, c, a, dt):
    r = deref(a[0])
    if truth(ex, binop('Lt', r.f[0].v, r.f[1].v, 'usize')):
        return binop('Sub', r.f[1].v, r.f[0].v, 'usize')
    return 0

# ------------------------------------------------------------------ Vec / slice
@native(('Vec', 'new'), ('VecDeque', 'new'))
def _vec_new(ex, c, a, dt): return VecV()
@native(('Vec', 'with_capacity'))
def _vec_with_capacity(ex, c, a, dt): return VecV()
@native(('Vec', 'len'), ('slice', 'len'), ('VecDeque', 'len'))
def _vec_len(ex, c, a, dt): return len(items(a[0]))
@native(('Vec', 'is_empty'), ('slice', 'is_empty'))
def _vec_is_empty(ex, c, a, dt): return len(items(a[0])) == 0
@native(('Vec', 'push'), ('VecDeque', 'push_back'))
def _vec_push(ex, c, a, dt):
    deref(a[0]).items.append(Cell(a[1])); return UNIT
@native(('Vec', 'pop'))
def _vec_pop(ex, c, a, dt):
    v = deref(a[0])
    return SOME(v.items.pop().v) if v.items else NONE()
@native(('Vec', 'insert'))
def _vec_insert(ex, c, a, dt):
    v = deref(a[0]); i = concrete_int(ex, a[1])
    if i > len(v.items): raise Panic('insertion index out of bounds')
    v.items.insert(i, Cell(a[2])); return UNIT
@native(('Vec', 'remove'))
def _vec_remove(ex, c, a, dt):
    v = deref(a[0]); i = concrete_int(ex, a[1])
    if i >= len(v.items): raise Panic('removal index out of bounds')
    return v.items.pop(i).v
@native(('Vec', 'clear'))
def _vec_clear(ex, c, a, dt):
    deref(a[0]).items.clear(); return UNIT
@native(('Vec', 'truncate'))
def _vec_truncate(ex, c, a, dt):
    v = deref(a[0]); n = concrete_int(ex, a[1])
    del v.items[n:]; return UNIT
@native(('Vec', 'extend'), ('Vec', 'extend_from_slice'), ('Vec', 'append'))
def _vec_extend(ex, c, a, dt):
    v = deref(a[0])
    if c.method == 'append':
        src = deref(a[1])
        v.items.extend(src.items); src.items = []
        return UNIT
    if c.method == 'extend_from_slice':
        v.items.extend(Cell(clone_val(x.v)) for x in items(a[1]))
        return UNIT
    for x in to_iter(ex, a[1]).drain(ex):
        v.items.append(Cell(x))
    return UNIT
@tnative(('Extend', 'extend'))
def _extend(ex, c, a, dt):
    tgt = deref(a[0])
    vals = to_iter(ex, a[1]).drain(ex)
    if type(tgt) is VecV:
        tgt.items.extend(Cell(deref_once(x) if c.text.startswith('<Vec') and False else x) for x in vals)
    elif type(tgt) is MapV:
        for t in vals:
            map_insert(tgt, t.f[0].v, t.f[1].v)
    elif type(tgt) is SetV:
        for x in vals:
            tgt.d[canon(x)] = x
    elif isinstance(tgt, str):
        a[0].cell.v = tgt + ''.join(as_str(x) for x in vals)
    else:
        raise Unsupported('extend on %r' % (tgt,))
    return UNIT
@native(('slice', 'first'), ('Vec', 'first'))
def _first(ex, c, a, dt):
    it = items(a[0]); return SOME(Ref(it[0])) if it else NONE()
@native(('slice', 'last'), ('Vec', 'last'), ('slice', 'last_mut'), ('Vec', 'last_mut'))
def _lastel(ex, c, a, dt):
    it = items(a[0]); return SOME(Ref(it[-1])) if it else NONE()
@native(('slice', 'first_mut'),)
def _first_mut(ex, c, a, dt):
    it = items(a[0]); return SOME(Ref(it[0])) if it else NONE()
@native(('slice', 'get'), ('Vec', 'get'), ('slice', 'get_mut'), ('Vec', 'get_mut'))
def _get(ex, c, a, dt):
    it = items(a[0])
    idx = a[1]
    if type(idx) is Struct:
        raise Unsupported('slice get with range')
    i = ex.ctx.concretize(idx, range(len(it)))
    if i is None or i >= len(it): return NONE()
    return SOME(Ref(it[i]))
@native(('slice', 'contains'), ('Vec', 'contains'))
def _contains(ex, c, a, dt):
    for x in items(a[0]):
        if truth(ex, eq_val(x.v, a[1])): return True
    return False
@native(('slice', 'to_vec'), ('slice', 'to_owned'))
def _to_vec(ex, c, a, dt): return VecV([Cell(clone_val(x.v)) for x in items(a[0])])
@native(('slice', 'concat'))
def _concat(ex, c, a, dt):
    out = []
    strs = True
    for x in items(a[0]):
        v = deref(x.v)
        if isinstance(v, str):
            out.append(v)
        else:
            strs = False
            out.extend(Cell(clone_val(y.v)) for y in v.items)
    return ''.join(out) if strs and out else VecV(out) if not strs else ''
@native(('slice', 'join'))
def _slice_join(ex, c, a, dt):
    sep = as_str(a[1])
    return sep.join(as_str(x.v) for x in items(a[0]))
@native(('slice', 'into_vec'))
def _into_vec(ex, c, a, dt):
    v = a[0]
    if type(v) is BoxV: v = v.cell.v
    return v
@native(('slice', 'sort'), ('slice', 'sort_by'), ('slice', 'sort_by_key'), ('slice', 'sort_unstable'), ('slice', 'sort_unstable_by'))
def _sort(ex, c, a, dt):
    v = deref(a[0])
    vals = [x.v for x in v.items]
    if c.method in ('sort', 'sort_unstable'):
        out = sort_vals(ex, vals, lambda x, y: cmp_val(ex, x, y))
    elif c.method in ('sort_by', 'sort_unstable_by'):
        f = a[1]
        out = sort_vals(ex, vals, lambda x, y: ex.call_value(f, [Cell(Ref(Cell(x))), Cell(Ref(Cell(y)))]).vi - 1)
    else:
        f = a[1]
        keyed = [(ex.call_value(f, [Cell(Ref(Cell(x)))]), x) for x in vals]
        out = [x for k, x in sort_vals(ex, keyed, lambda p, q: cmp_val(ex, p[0], q[0]))]
    v.items[:] = [Cell(x) for x in out]
    return UNIT
@native(('Vec', 'dedup'))
def _vec_dedup(ex, c, a, dt):
    v = deref(a[0]); out = []
    for x in v.items:
        if not out or not truth(ex, eq_val(out[-1].v, x.v)): out.append(x)
    v.items[:] = out
    return UNIT
@native(('Vec', 'retain'))
def _retain(ex, c, a, dt):
    v = deref(a[0])
    v.items[:] = [x for x in v.items if truth(ex, ex.call_value(a[1], [Cell(Ref(x))]))]
    return UNIT
@native(('Vec', 'drain'))
def _drain(ex, c, a, dt):
    v = deref(a[0]); r = a[1]
    if type(r) is Struct and r.ty.endswith('RangeFull') or type(r) is Opaque:
        out = [x.v for x in v.items]; v.items.clear(); return ListIt(out)
    raise Unsupported('drain range')
@native(('Vec', 'as_slice'), ('Vec', 'as_mut_slice'), ('Vec', 'as_ref'), ('Vec', 'borrow'))
def _as_slice(ex, c, a, dt): return a[0]
@native(('slice', 'split_first'))
def _split_first(ex, c, a, dt):
    v = deref(a[0])
    if not v.items: return NONE()
    base = v if type(v) is VecV else v.vec
    lo = 0 if type(v) is VecV else v.lo
    hi = len(v.items) + lo
    return SOME(Tup([Cell(Ref(v.items[0])), Cell(Ref(Cell(SliceV(base, lo + 1, hi))))]))
@native(('slice', 'split_last'))
def _split_last(ex, c, a, dt):
    v = deref(a[0])
    if not v.items: return NONE()
    base = v if type(v) is VecV else v.vec
    lo = 0 if type(v) is VecV else v.lo
    hi = len(v.items) + lo
    return SOME(Tup([Cell(Ref(v.items[-1])), Cell(Ref(Cell(SliceV(base, lo, hi - 1))))]))

@tnative(('Index', 'index'), ('IndexMut', 'index_mut'))
def _index(ex, c, a, dt):
    cont = deref(a[0])
    idx = a[1]
    if type(cont) is MapV:
        k = canon(deref(idx))
        if k not in cont.d: raise Panic('key not found in map')
        return Ref(cont.d[k][1])
    if isinstance(cont, str):
        lo, hi = range_bounds(ex, idx, len(cont.encode()))
        b = cont.encode()
        if lo > hi or hi > len(b): raise Panic('byte index out of range')
        try:
            return strref(b[lo:hi].decode())
        except UnicodeDecodeError:
            raise Panic('byte index is not a char boundary')
    its = cont.items
    if type(idx) is Struct or type(idx) is Opaque:
        lo, hi = range_bounds(ex, idx, len(its))
        if lo > hi: raise Panic('slice index starts at %d but ends at %d' % (lo, hi))
        if hi > len(its): raise Panic('range end index out of range for slice')
        base = cont if type(cont) is VecV else cont.vec
        off = 0 if type(cont) is VecV else cont.lo
        return Ref(Cell(SliceV(base, off + lo, off + hi)))
    i = ex.ctx.concretize(idx, range(len(its)))
    if i is None or i >= len(its):
        raise Panic('index out of bounds: the len is %d' % len(its))
    return Ref(its[i])

def range_bounds(ex, r, n):
    if type(r) is Opaque:
        return 0, n
    h = r.ty.split('::')[-1]
    g = lambda i: concrete_int(ex, r.f[i].v)
    if h == 'Range': return g(0), g(1)
    if h == 'RangeFrom': return g(0), n
    if h == 'RangeTo': return 0, g(0)
    if h == 'RangeFull': return 0, n
    if h == 'RangeInclusive': return g(0), g(1) + 1
    if h == 'RangeToInclusive': return 0, g(0) + 1
    raise Unsupported('range kind ' + h)

@tnative(('Deref', 'deref'), ('DerefMut', 'deref_mut'), ('AsRef', 'as_ref'), ('Borrow', 'borrow'), ('AsMut', 'as_mut'), ('BorrowMut', 'borrow_mut'))
def _deref(ex, c, a, dt):
    v = a[0]
    inner = v.cell.v if type(v) is Ref else v
    if type(inner) in (ArcV, BoxV):
        return Ref(inner.cell)
    if type(inner) is Ref and c.method in ('deref', 'deref_mut'):
        return inner
    return v if type(v) is Ref else Ref(Cell(v))

# ------------------------------------------------------------------ Option / Result
def O(v):
    v = v if type(v) is Enum else deref(v)
    return v

@native(('Option', 'is_some'), ('Result', 'is_ok'))
def _is_some(ex, c, a, dt): return (O(a[0]).vi == 1) if c.head == 'Option' else (O(a[0]).vi == 0)
@native(('Option', 'is_none'), ('Result', 'is_err'))
def _is_none(ex, c, a, dt): return (O(a[0]).vi == 0) if c.head == 'Option' else (O(a[0]).vi == 1)
@native(('Option', 'is_some_and'), ('Option', 'is_none_or'))
def _is_some_and(ex, c, a, dt):
    o = a[0]
    if o.vi == 0: return c.method == 'is_none_or'
    return ex.call_value(a[1], [o.f[0]])
@native(('Option', 'unwrap'), ('Option', 'expect'))
def _unwrap(ex, c, a, dt):
    o = a[0]
    if o.vi == 0:
        raise Panic(as_str(a[1]) if c.method == 'expect' else 'called `Option::unwrap()` on a `None` value')
    return o.f[0].v
@native(('Result', 'unwrap'), ('Result', 'expect'))
def _runwrap(ex, c, a, dt):
    o = a[0]
    if o.vi == 1:
        raise Panic(as_str(a[1]) if c.method == 'expect' else 'called `Result::unwrap()` on an `Err` value')
    return o.f[0].v
@native(('Option', 'unwrap_or'), ('Result', 'unwrap_or'))
def _unwrap_or(ex, c, a, dt):
    o = a[0]
    some = (o.vi == 1) if c.head == 'Option' else (o.vi == 0)
    return o.f[0].v if some else a[1]
@native(('Option', 'unwrap_or_else'), ('Result', 'unwrap_or_else'))
def _unwrap_or_else(ex, c, a, dt):
    o = a[0]
    if c.head == 'Option':
        return o.f[0].v if o.vi == 1 else ex.call_value(a[1], [])
    return o.f[0].v if o.vi == 0 else ex.call_value(a[1], [o.f[0]])
@native(('Option', 'unwrap_or_default'), ('Result', 'unwrap_or_default'))
def _unwrap_or_default(ex, c, a, dt):
    o = a[0]
    some = (o.vi == 1) if c.head == 'Option' else (o.vi == 0)
    return o.f[0].v if some else default_of(ex, dt)
@native(('Option', 'map'))
def _omap(ex, c, a, dt):
    o = a[0]
    return SOME(ex.call_value(a[1], [o.f[0]])) if o.vi == 1 else NONE()
@native(('Result', 'map'))
def _rmap(ex, c, a, dt):
    o = a[0]
    return OK(ex.call_value(a[1], [o.f[0]])) if o.vi == 0 else o
@native(('Result', 'map_err'))
def _rmap_err(ex, c, a, dt):
    o = a[0]
    return ERR(ex.call_value(a[1], [o.f[0]])) if o.vi == 1 else o
@native(('Option', 'and_then'))
def _and_then(ex, c, a, dt):
    o = a[0]
    return ex.call_value(a[1], [o.f[0]]) if o.vi == 1 else NONE()
@native(('Result', 'and_then'))
def _rand_then(ex, c, a, dt):
    o = a[0]
    return ex.call_value(a[1], [o.f[0]]) if o.vi == 0 else o
@native(('Option', 'map_or'))
def _map_or(ex, c, a, dt):
    o = a[0]
    return ex.call_value(a[2], [o.f[0]]) if o.vi == 1 else a[1]
@native(('Option', 'map_or_else'))
def _map_or_else(ex, c, a, dt):
    o = a[0]
    return ex.call_value(a[2], [o.f[0]]) if o.vi == 1 else ex.call_value(a[1], [])
@native(('Option', 'filter'))
def _ofilter(ex, c, a, dt):
    o = a[0]
    if o.vi == 0: return o
    return o if truth(ex, ex.call_value(a[1], [Cell(Ref(o.f[0]))])) else NONE()
@native(('Option', 'or'))
def _oor(ex, c, a, dt): return a[0] if a[0].vi == 1 else a[1]
@native(('Option', 'or_else'))
def _oor_else(ex, c, a, dt): return a[0] if a[0].vi == 1 else ex.call_value(a[1], [])
@native(('Option', 'and'))
def _oand(ex, c, a, dt): return a[1] if a[0].vi == 1 else NONE()
@native(('Option', 'xor'))
def _oxor(ex, c, a, dt):
    if a[0].vi == 1 and a[1].vi == 0: return a[0]
    if a[0].vi == 0 and a[1].vi == 1: return a[1]
    return NONE()
@native(('Option', 'ok_or'))
def _ok_or(ex, c, a, dt): return OK(a[0].f[0].v) if a[0].vi == 1 else ERR(a[1])
@native(('Option', 'ok_or_else'))
def _ok_or_else(ex, c, a, dt): return OK(a[0].f[0].v) if a[0].vi == 1 else ERR(ex.call_value(a[1], []))
@native(('Result', 'ok'))
def _rok(ex, c, a, dt): return SOME(a[0].f[0].v) if a[0].vi == 0 else NONE()
@native(('Result', 'err'))
def _rerr(ex, c, a, dt): return SOME(a[0].f[0].v) if a[0].vi == 1 else NONE()
@native(('Option', 'as_ref'), ('Option', 'as_mut'), ('Option', 'as_deref'), ('Option', 'as_deref_mut'))
def _as_ref(ex, c, a, dt):
    o = deref(a[0])
    if o.vi == 0: return NONE()
    if c.method.startswith('as_deref'):
        inner = o.f[0].v
        if type(inner) in (BoxV, ArcV): return SOME(Ref(inner.cell))
        return SOME(Ref(o.f[0]))
    return SOME(Ref(o.f[0]))
@native(('Result', 'as_ref'))
def _ras_ref(ex, c, a, dt):
    o = deref(a[0])
    return Enum('Result', o.vi, o.vn, [Cell(Ref(o.f[0]))])
@native(('Option', 'cloned'), ('Option', 'copied'))
def _ocloned(ex, c, a, dt):
    o = a[0]
    return SOME(clone_val(deref_once(o.f[0].v))) if o.vi == 1 else NONE()
@native(('Option', 'take'))
def _otake(ex, c, a, dt):
    cell = a[0].cell
    v = cell.v
    cell.v = NONE()
    return v
@native(('Option', 'replace'))
def _oreplace(ex, c, a, dt):
    cell = a[0].cell
    v = cell.v
    cell.v = SOME(a[1])
    return v
@native(('Option', 'insert'), ('Option', 'get_or_insert'))
def _oinsert(ex, c, a, dt):
    cell = a[0].cell
    if c.method == 'insert' or cell.v.vi == 0:
        cell.v = SOME(a[1])
    return Ref(cell.v.f[0])
@native(('Option', 'get_or_insert_with'))
def _oget_or_insert_with(ex, c, a, dt):
    cell = a[0].cell
    if cell.v.vi == 0:
        cell.v = SOME(ex.call_value(a[1], []))
    return Ref(cell.v.f[0])
@native(('Option', 'zip'))
def _ozip(ex, c, a, dt):
    if a[0].vi == 1 and a[1].vi == 1:
        return SOME(Tup([Cell(a[0].f[0].v), Cell(a[1].f[0].v)]))
    return NONE()
@native(('Option', 'flatten'))
def _oflatten(ex, c, a, dt): return a[0].f[0].v if a[0].vi == 1 else NONE()
@native(('Option', 'into_iter'))
def _ointo_iter(ex, c, a, dt): return to_iter(ex, a[0])
@native(('Option', 'unzip'))
def _ounzip(ex, c, a, dt):
    if a[0].vi == 1:
        t = a[0].f[0].v
        return Tup([Cell(SOME(t.f[0].v)), Cell(SOME(t.f[1].v))])
    return Tup([Cell(NONE()), Cell(NONE())])

@tnative(('Try', 'branch'))
def _try_branch(ex, c, a, dt):
    v = a[0]
    cont = (v.vi == 1) if v.ty == 'Option' else (v.vi == 0)
    if cont:
        return Enum('ControlFlow', 0, 'Continue', [Cell(v.f[0].v)])
    return Enum('ControlFlow', 1, 'Break', [Cell(v)])
@tnative(('FromResidual', 'from_residual'))
def _from_residual(ex, c, a, dt):
    v = a[0]
    if v.ty == 'Result' and v.vi == 1 and ty_head(dt or '') == 'Result':
        return v
    return v
@tnative(('Try', 'from_output'))
def _from_output(ex, c, a, dt):
    return SOME(a[0]) if ty_head(dt or '') == 'Option' else OK(a[0])

# ------------------------------------------------------------------ Clone / Eq / Ord / Default / conversions
@tnative(('Clone', 'clone'), ('ToOwned', 'to_owned'))
def _clone(ex, c, a, dt):
    v = a[0]
    if type(v) is Ref:
        inner = v.cell.v
        if type(inner) is SliceV:
            return VecV([Cell(clone_val(x.v)) for x in inner.items])
        return clone_val(inner)
    return clone_val(v)
@tnative(('Clone', 'clone_from'))
def _clone_from(ex, c, a, dt):
    a[0].cell.v = clone_val(deref_once(a[1])); return UNIT
@tnative(('PartialEq', 'eq'))
def _eq(ex, c, a, dt): return eq_val(a[0], a[1])
@tnative(('PartialEq', 'ne'))
def _ne(ex, c, a, dt):
    r = eq_val(a[0], a[1])
    return (not r) if isinstance(r, bool) else z3.Not(r)
@tnative(('Ord', 'cmp'), ('PartialOrd', 'partial_cmp'))
def _cmp(ex, c, a, dt):
    r = ordering(cmp_val(ex, a[0], a[1]))
    return SOME(r) if c.method == 'partial_cmp' else r
@tnative(('PartialOrd', 'lt'), ('PartialOrd', 'le'), ('PartialOrd', 'gt'), ('PartialOrd', 'ge'))
def _ord_ops(ex, c, a, dt):
    x, y = deref(a[0]), deref(a[1])
    if (isinstance(x, int) or is_sym(x)) and (isinstance(y, int) or is_sym(y)):
        ty = strip_generics(c.selfty or 'usize').lstrip('&')
        return binop({'lt': 'Lt', 'le': 'Le', 'gt': 'Gt', 'ge': 'Ge'}[c.method], x, y, ty)
    r = cmp_val(ex, x, y)
    return {'lt': r < 0, 'le': r <= 0, 'gt': r > 0, 'ge': r >= 0}[c.method]
@tnative(('Ord', 'max'), ('Ord', 'min'))
def _ord_max(ex, c, a, dt):
    r = cmp_val(ex, a[0], a[1])
    if c.method == 'max': return a[1] if r <= 0 else a[0]
    return a[0] if r <= 0 else a[1]
@native(('Ordering', 'then'), ('Ordering', 'then_with'))
def _then(ex, c, a, dt):
    if a[0].vi != 1: return a[0]
    return a[1] if c.method == 'then' else ex.call_value(a[1], [])
@native(('Ordering', 'reverse'))
def _reverse(ex, c, a, dt): return ordering(-(a[0].vi - 1))
@native(('Ordering', 'is_eq'),)
def _is_eq(ex, c, a, dt): return a[0].vi == 1

def default_of(ex, ty):
    if ty is None:
        raise Unsupported('default of unknown type')
    t = ty.strip()
    h = ty_head(t)
    if h in ('Vec', 'VecDeque'): return VecV()
    if h in ('HashMap', 'BTreeMap'): return MapV(h)
    if h in ('HashSet', 'BTreeSet'): return SetV(h)
    if h == 'String': return ''
    if h == 'Option': return NONE()
    if h == 'bool': return False
    if h in ('usize', 'u8', 'u16', 'u32', 'u64', 'i32', 'i64', 'isize', 'u128', 'i8', 'i16'): return 0
    if h == 'tuple' and t == '()': return UNIT
    if h == 'Arc':
        return ArcV(Cell(default_of(ex, t[t.index('<') + 1:-1])))
    if h == 'Range' and '<' in t:
        inner = t[t.index('<') + 1:-1]
        return Struct('std::ops::Range', [Cell(default_of(ex, inner)), Cell(default_of(ex, inner))], ['start', 'end'])
    full, info = ex.prog.struct_fields(strip_generics(t))
    if info is not None and info[0] == 'named' and not any(getattr(tt, 'prefix', None) is None and full in tt.structs for tt in ex.prog.tt):
        # plain data struct of an external crate (lsp-types): field-wise default
        return Struct(full, [Cell(default_of(ex, fty)) for fn_, fty in info[1]], [fn_ for fn_, fty in info[1]])
    return ex.call('<%s as Default>::default' % t, [], ty)
@tnative(('Default', 'default'))
def _default(ex, c, a, dt):
    h = c.head
    t = c.selfty
    if h in ('Vec', 'VecDeque', 'HashMap', 'BTreeMap', 'HashSet', 'BTreeSet', 'String', 'Option', 'bool', 'usize', 'u8', 'u16', 'u32',
             'u64', 'i32', 'i64', 'isize', 'Arc', 'tuple', 'Range'):
        return default_of(ex, t)
    full, info = ex.prog.struct_fields(strip_generics(t))
    if info is not None and info[0] == 'named':
        return Struct(full, [Cell(default_of(ex, fty)) for fn_, fty in info[1]], [fn_ for fn_, fty in info[1]])
    raise Unsupported('Default for ' + str(t))

@tnative(('From', 'from'), ('Into', 'into'))
def _from(ex, c, a, dt):
    v = a[0]
    h = ty_head(dt or '')
    cands = [e for e in ex.prog.impl_methods.get((h, 'from'), []) if e[0] == 'From']
    if cands and c.method == 'into':
        # a From impl of the crate under test (e.g. impl From<String> for Key): executed from MIR
        want = '&str' if type(v) is Ref else 'String'
        pick = [e for e in cands if want in e[1].raw[0]] or cands
        return ex.run_fn(pick[0][1], [v])
    if h == 'String':
        return as_str(v) if not isinstance(v, int) else chr(v)
    if h in ('Vec',) and type(deref(v)) in (VecV, SliceV):
        d = deref(v)
        return d if type(v) is VecV else VecV([Cell(clone_val(x.v)) for x in d.items])
    if h == 'Box':
        return BoxV(Cell(v))
    if h == 'Arc':
        return ArcV(Cell(v))
    if h in ('usize', 'u64', 'u32', 'i64', 'u16', 'i32', 'u128', 'isize') and (isinstance(v, int) or is_sym(v)):
        from engine import cast_int
        src = strip_generics(c.selfty) if c.method == 'into' else None
        return cast_int(v, src, h)
    if h == 'Option':
        return SOME(v)
    if h in ('PathBuf', 'Cow', 'Number'):
        return v
    if h == ty_head(c.selfty or '') or dt is None:
        return v
    raise Unsupported('conversion %s -> %s' % (c.text, dt))
@tnative(('TryFrom', 'try_from'), ('TryInto', 'try_into'))
def _try_from(ex, c, a, dt):
    v = a[0]
    inner = split_first_generic(dt)
    from mirparse import INT_TYPES
    w, sg = INT_TYPES[inner.strip()]
    if isinstance(v, int):
        lo, hi = (-(1 << (w - 1)), (1 << (w - 1)) - 1) if sg else (0, (1 << w) - 1)
        return OK(v) if lo <= v <= hi else ERR(Opaque('TryFromIntError'))
    raise Unsupported('try_from on symbolic')

# ------------------------------------------------------------------ Arc / Box / Rc / mem
@native(('Arc', 'new'), ('Rc', 'new'))
def _arc_new(ex, c, a, dt): return ArcV(Cell(a[0]))
@native(('Box', 'new'))
def _box_new(ex, c, a, dt): return BoxV(Cell(a[0]))
@native(('Arc', 'get_mut'))
def _arc_get_mut(ex, c, a, dt): return SOME(Ref(deref_once(a[0]).cell))
@native(('Arc', 'make_mut'))
def _arc_make_mut(ex, c, a, dt): return Ref(deref_once(a[0]).cell)
@native(('mem', 'take'))
def _mem_take(ex, c, a, dt):
    cell = a[0].cell
    v = cell.v
    cell.v = default_of(ex, dt)
    return v
@native(('mem', 'replace'))
def _mem_replace(ex, c, a, dt):
    cell = a[0].cell
    v = cell.v; cell.v = a[1]
    return v
@native(('mem', 'swap'))
def _mem_swap(ex, c, a, dt):
    a[0].cell.v, a[1].cell.v = a[1].cell.v, a[0].cell.v
    return UNIT
@native(('mem', 'drop'), ('mem', 'forget'))
def _mem_drop(ex, c, a, dt): return UNIT

# ------------------------------------------------------------------ HashMap / HashSet
def map_insert(m, k, v):
    ck = canon(k)
    old = m.d.get(ck)
    if old is not None:
        r = SOME(old[1].v)
        old[1].v = v
        return r
    m.d[ck] = (k, Cell(v))
    return NONE()

@native(('HashMap', 'new'), ('BTreeMap', 'new'), ('HashMap', 'with_capacity'))
def _map_new(ex, c, a, dt): return MapV(c.head)
@native(('HashSet', 'new'), ('BTreeSet', 'new'), ('HashSet', 'with_capacity'))
def _set_new(ex, c, a, dt): return SetV(c.head)
@native(('HashMap', 'insert'), ('BTreeMap', 'insert'))
def _map_insert(ex, c, a, dt): return map_insert(deref(a[0]), a[1], a[2])
@native(('HashMap', 'get'), ('BTreeMap', 'get'), ('HashMap', 'get_mut'), ('BTreeMap', 'get_mut'))
def _map_get(ex, c, a, dt):
    m = deref(a[0])
    e = m.d.get(lookup_key(ex, m, a[1]))
    return SOME(Ref(e[1])) if e else NONE()
def lookup_key(ex, m, k):
    k = deref(k)
    try:
        return canon(k)
    except NotConcrete:
        # symbolic key: fork over the existing keys
        for ck, (kv, cell) in list(m.d.items()):
            if truth(ex, eq_val(kv, k)):
                return ck
        return ('<absent>',)
@native(('HashMap', 'contains_key'), ('BTreeMap', 'contains_key'))
def _map_contains(ex, c, a, dt):
    m = deref(a[0])
    return lookup_key(ex, m, a[1]) in m.d
@native(('HashMap', 'remove'), ('BTreeMap', 'remove'))
def _map_remove(ex, c, a, dt):
    m = deref(a[0])
    e = m.d.pop(lookup_key(ex, m, a[1]), None)
    return SOME(e[1].v) if e else NONE()
@native(('HashMap', 'len'), ('HashSet', 'len'), ('BTreeMap', 'len'), ('BTreeSet', 'len'))
def _map_len(ex, c, a, dt): return len(deref(a[0]).d)
@native(('HashMap', 'is_empty'), ('HashSet', 'is_empty'), ('BTreeMap', 'is_empty'))
def _map_is_empty(ex, c, a, dt): return len(deref(a[0]).d) == 0
@native(('HashMap', 'clear'), ('HashSet', 'clear'))
def _map_clear(ex, c, a, dt):
    deref(a[0]).d.clear(); return UNIT
@native(('HashMap', 'entry'), ('BTreeMap', 'entry'))
def _map_entry(ex, c, a, dt): return Opaque('Entry', (deref(a[0]), a[1]))
@native(('Entry', 'or_insert_with'), ('Entry', 'or_insert'), ('Entry', 'or_default'))
def _entry_or_insert(ex, c, a, dt):
    m, k = a[0].data
    ck = canon(k)
    if ck not in m.d:
        if c.method == 'or_insert_with': v = ex.call_value(a[1], [])
        elif c.method == 'or_insert': v = a[1]
        else: v = default_of(ex, (dt or '').replace('&mut ', '').replace("&'_ mut ", ''))
        m.d[ck] = (k, Cell(v))
    return Ref(m.d[ck][1])
@native(('HashSet', 'insert'), ('BTreeSet', 'insert'))
def _set_insert(ex, c, a, dt):
    s = deref(a[0]); ck = canon(a[1])
    if ck in s.d: return False
    s.d[ck] = a[1]; return True
@native(('HashSet', 'contains'), ('BTreeSet', 'contains'))
def _set_contains(ex, c, a, dt):
    s = deref(a[0]); k = deref(a[1])
    try:
        return canon(k) in s.d
    except NotConcrete:
        for kv in s.d.values():
            if truth(ex, eq_val(kv, k)): return True
        return False
@native(('HashSet', 'remove'),)
def _set_remove(ex, c, a, dt):
    s = deref(a[0]); ck = canon(deref(a[1]))
    return s.d.pop(ck, None) is not None

# ------------------------------------------------------------------ strings
@tnative(('ToString', 'to_string'))
def _to_string(ex, c, a, dt): return display(ex, a[0])
@native(('String', 'new'))
def _string_new(ex, c, a, dt): return ''
@native(('String', 'from'), ('str', 'to_string'), ('str', 'to_owned'), ('String', 'clone'), ('str', 'into'), ('String', 'as_str'),
        ('String', 'as_ref'), ('str', 'as_ref'), ('String', 'to_string'))
def _string_from(ex, c, a, dt):
    if c.method in ('as_str', 'as_ref'):
        return a[0]
    return as_str(a[0])
@native(('String', 'len'), ('str', 'len'))
def _str_len(ex, c, a, dt):
    s = as_str(a[0])
    if type(s) is SymStr: raise Unsupported('len of opaque string')
    return len(s.encode())
@native(('String', 'is_empty'), ('str', 'is_empty'))
def _str_is_empty(ex, c, a, dt):
    s = as_str(a[0])
    if type(s) is SymStr: return False
    return s == ''
@native(('String', 'push_str'))
def _push_str(ex, c, a, dt):
    a[0].cell.v = as_str(a[0]) + as_str(a[1]); return UNIT
@native(('String', 'push'))
def _push(ex, c, a, dt):
    a[0].cell.v = as_str(a[0]) + chr(a[1]); return UNIT
@native(('str', 'trim'), ('str', 'trim_start'), ('str', 'trim_end'))
def _trim(ex, c, a, dt):
    s = as_str(a[0])
    ws = ' \t\n\r\x0b\x0c\x85\xa0                　'
    if c.method == 'trim': return strref(s.strip(ws))
    if c.method == 'trim_start': return strref(s.lstrip(ws))
    return strref(s.rstrip(ws))
@native(('str', 'trim_end_matches'))
def _trim_end_matches(ex, c, a, dt):
    s = as_str(a[0]); p = as_str(a[1])
    if type(s) is SymStr: return a[0] if type(a[0]) is Ref else strref(s)
    while p and s.endswith(p): s = s[:-len(p)]
    return strref(s)
@native(('str', 'trim_start_matches'))
def _trim_start_matches(ex, c, a, dt):
    s = as_str(a[0]); p = as_str(a[1])
    while p and s.startswith(p): s = s[len(p):]
    return strref(s)
@native(('str', 'trim_matches'))
def _trim_matches(ex, c, a, dt):
    s = as_str(a[0]); p = deref(a[1])
    if isinstance(p, int): p = chr(p)
    p = as_str(p) if not isinstance(p, str) else p
    if len(p) != 1:
        raise Unsupported('trim_matches with a non-char pattern')
    return strref(s.strip(p))
@native(('str', 'strip_prefix'), ('str', 'strip_suffix'))
def _strip_prefix(ex, c, a, dt):
    s = as_str(a[0]); p = as_str(a[1])
    if c.method == 'strip_prefix':
        return SOME(strref(s[len(p):])) if s.startswith(p) else NONE()
    return SOME(strref(s[:len(s) - len(p)])) if s.endswith(p) else NONE()
@native(('str', 'starts_with'), ('str', 'ends_with'), ('str', 'contains'))
def _starts_with(ex, c, a, dt):
    s = as_str(a[0]); p = deref(a[1])
    if isinstance(p, int): p = chr(p)
    if type(s) is SymStr: return False
    return {'starts_with': s.startswith, 'ends_with': s.endswith, 'contains': s.__contains__}[c.method](p)
@native(('str', 'to_lowercase'), ('str', 'to_uppercase'), ('str', 'to_ascii_lowercase'))
def _lower(ex, c, a, dt):
    s = as_str(a[0])
    if type(s) is SymStr: return s
    return s.lower() if 'lower' in c.method else s.upper()
@native(('str', 'lines'))
def _lines(ex, c, a, dt):
    s = as_str(a[0])
    parts = s.split('\n')
    if parts and parts[-1] == '': parts.pop()
    return ListIt([strref(p[:-1] if p.endswith('\r') else p) for p in parts])
@native(('str', 'chars'))
def _chars(ex, c, a, dt): return ListIt([ord(ch) for ch in as_str(a[0])])
@native(('str', 'bytes'))
def _bytes(ex, c, a, dt): return ListIt(list(as_str(a[0]).encode()))
@native(('str', 'split'))
def _split(ex, c, a, dt):
    s = as_str(a[0]); p = deref(a[1])
    if isinstance(p, int): p = chr(p)
    return ListIt([strref(x) for x in s.split(p)])
@native(('str', 'replace'))
def _replace(ex, c, a, dt):
    p = deref(a[1])
    if isinstance(p, int): p = chr(p)
    return as_str(a[0]).replace(p, as_str(a[2]))
@native(('str', 'repeat'))
def _repeat(ex, c, a, dt):
    n_ = deref(a[1])
    reg = getattr(ex.ctx, 'sym_repeat', None)
    if reg is not None and is_sym(n_) and not z3.is_bv_value(z3.simplify(n_)) and len(as_str(a[0])) == 1:
        # a run of one character whose length is symbolic: the character followed by a private-use mark naming the length
        # (harnesses that enable this read the text back with a reader that knows the mark)
        reg.append(n_)
        return as_str(a[0]) + chr(0xE000 + len(reg) - 1)
    return as_str(a[0]) * concrete_int(ex, a[1])
@native(('str', 'parse'))
def _parse(ex, c, a, dt):
    s = as_str(a[0])
    try:
        return OK(int(s))
    except ValueError:
        return ERR(Opaque('ParseIntError'))
@native(('str', 'is_char_boundary'))
def _is_char_boundary(ex, c, a, dt):
    b = as_str(a[0]).encode(); i = concrete_int(ex, a[1])
    if i == 0 or i == len(b): return True
    if i > len(b): return False
    return (b[i] & 0xC0) != 0x80

def display(ex, v):
    """Display::fmt of a value -> Python str"""
    d = deref(v)
    if isinstance(d, str): return d
    if type(d) is SymStr: return d
    if isinstance(d, bool): return 'true' if d else 'false'
    if isinstance(d, int): return str(d)
    if is_sym(d):
        s = z3.simplify(d)
        if z3.is_bv_value(s): return str(s.as_long())
        nd = getattr(ex.ctx, 'sym_digits', None)
        if nd and z3.is_bv(d):
            # the decimal text of an unsigned symbolic integer: split on its number of digits (solver-decided); the digits
            # themselves are written as the placeholder '7' (harnesses that enable this only depend on the width).
            # the harness has assumed d < 10**nd
            for k in range(1, nd + 1):
                if k == nd or ex.ctx.branch(z3.ULT(d, z3.BitVecVal(10 ** k, d.size()))):
                    return '7' * k
        raise Unsupported('Display of symbolic integer')
    if type(d) is Struct:
        h = d.ty.split('::')[-1]
        if h == 'Key':
            return display(ex, d.f[0].v)
        if h in ('RelativePathBuf', 'RelativePath'):
            return d.f[0].v
    if type(d) is Opaque and d.tag == 'Arguments':
        return d.data
    raise Unsupported('Display of %r' % (d,))

def debug_str(v):
    return '<dbg>'

# format!/panic!: Arguments are folded to a Python string when all pieces are concrete, else to a placeholder
@native(('Arguments', 'new_const'), ('Arguments', 'new_v1'), ('Arguments', 'new_v1_formatted'), ('Arguments', 'from_str'),
        ('Arguments', 'from_str_nonconst'), ('Arguments', 'new'))
def _args_new(ex, c, a, dt):
    try:
        if c.method in ('from_str', 'from_str_nonconst'):
            return Opaque('Arguments', as_str(a[0]))
        if c.method == 'new' and type(deref(a[0])) is VecV and len(a) == 2:
            tpl = bytes(x.v for x in deref(a[0]).items)
            argv = [x.v for x in items(a[1])]
            out, i, k = [], 0, 0
            while i < len(tpl):
                b = tpl[i]; i += 1
                if b == 0:
                    break
                if b < 0x80:
                    out.append(tpl[i:i + b].decode('utf8', 'replace')); i += b
                elif b == 0x80:
                    n_ = tpl[i] | (tpl[i + 1] << 8); i += 2
                    out.append(tpl[i:i + n_].decode('utf8', 'replace')); i += n_
                else:
                    # placeholder: optional flags (u32), width (u16), precision (u16), arg_index (u16), little endian
                    flags, width, prec = ord(' ') | (3 << 29), None, None
                    if b & 1: flags = int.from_bytes(tpl[i:i + 4], 'little'); i += 4
                    if b & 2: width = int.from_bytes(tpl[i:i + 2], 'little'); i += 2
                    if b & 4: prec = int.from_bytes(tpl[i:i + 2], 'little'); i += 2
                    if b & 8: k = int.from_bytes(tpl[i:i + 2], 'little'); i += 2
                    if b & 16: width = concrete_int(ex, deref(argv[width].data)) if type(argv[width]) is Opaque else None
                    if b & 32: prec = concrete_int(ex, deref(argv[prec].data)) if type(argv[prec]) is Opaque else None
                    arg = argv[k] if k < len(argv) else None
                    k += 1
                    txt = arg.data if type(arg) is Opaque and isinstance(arg.data, str) else '<arg>'
                    numeric = getattr(arg, 'numeric', False) if arg is not None else False
                    if prec is not None and not numeric:
                        txt = txt[:prec]
                    if width is not None and len(txt) < width:
                        fill = chr(flags & 0x1FFFFF)
                        align = (flags >> 29) & 3
                        if align == 3:
                            align = 1 if numeric else 0
                        pad = width - len(txt)
                        if numeric and (flags & (1 << 24)):
                            txt = '0' * pad + txt
                        elif align == 0: txt = txt + fill * pad
                        elif align == 1: txt = fill * pad + txt
                        else: txt = fill * (pad // 2) + txt + fill * (pad - pad // 2)
                    out.append(txt)
            return Opaque('Arguments', ''.join(out))
        pieces = [as_str(x.v) for x in items(a[0])]
        if c.method == 'new_const' or len(a) < 2:
            return Opaque('Arguments', ''.join(pieces))
        argv = [x.v for x in items(a[1])]
        out = []
        for i, p in enumerate(pieces):
            out.append(p)
            if i < len(argv):
                arg = argv[i]
                out.append(arg.data if type(arg) is Opaque and isinstance(arg.data, str) else '<arg>')
        if any(type(x) is SymStr for x in out):
            return Opaque('Arguments', SymStr(('fmt',) + tuple(x.tok if type(x) is SymStr else x for x in out)))
        return Opaque('Arguments', ''.join(out))
    except Unsupported:
        return Opaque('Arguments', '<fmt>')
@native(('Argument', 'new_display'), ('Argument', 'new_debug'), ('Argument', 'new_lower_hex'))
def _arg_new(ex, c, a, dt):
    if c.method == 'new_display':
        try:
            r = Opaque('Argument', display(ex, a[0]))
            d0 = deref(a[0])
            r.numeric = (isinstance(d0, int) and not isinstance(d0, bool)) or (is_sym(d0) and z3.is_bv(d0))
            return r
        except Unsupported:
            return Opaque('Argument', '<disp>')
    return Opaque('Argument', debug_str(a[0]))
@native(('fmt', 'format'), ('*', 'format'), ('*', 'must_use'))
def _format(ex, c, a, dt):
    v = a[0]
    if type(v) is Opaque and v.tag == 'Arguments':
        return v.data
    return v
@native(('*', 'panic_fmt'), ('*', 'begin_panic'), ('*', 'panic'), ('*', 'panic_display'), ('*', 'panic_explicit'),
        ('*', 'panic_str_2015'), ('*', 'unreachable_display'))
def _panic(ex, c, a, dt):
    msg = 'explicit panic'
    if a:
        v = a[0]
        if type(v) is Opaque and v.tag == 'Arguments':
            msg = v.data if isinstance(v.data, str) else '<formatted>'
        else:
            try: msg = as_str(v)
            except Unsupported: pass
    raise Panic(msg if isinstance(msg, str) else '<formatted>')
@native(('*', 'unwrap_failed'), ('*', 'expect_failed'))
def _unwrap_failed(ex, c, a, dt):
    raise Panic('unwrap/expect failed')
@native(('Formatter', 'write_str'), ('Formatter', 'write_fmt'))
def _fmt_write(ex, c, a, dt):
    f = deref(a[0])
    v = a[1]
    s = v.data if type(v) is Opaque else as_str(v)
    if type(f) is Opaque and isinstance(f.data, list):
        f.data.append(s)
    return OK(UNIT)
@tnative(('Write', 'write_fmt'), ('Write', 'write_str'))
def _write_fmt(ex, c, a, dt):
    tgt = a[0]
    v = a[1]
    s = v.data if type(v) is Opaque else as_str(v)
    d = deref(tgt)
    if isinstance(d, str):
        tgt.cell.v = d + s
    elif type(d) is Opaque and isinstance(d.data, list):
        d.data.append(s)
    return OK(UNIT)

# logging / tracing are no-ops
@native(('*', 'max_level'), ('log', 'max_level'))
def _max_level(ex, c, a, dt): return 0
@native(('*', 'log'), ('*', '__private_api_log'), ('*', 'enabled'), ('*', '__private_api_enabled'), ('*', 'loc'))
def _log(ex, c, a, dt): return False if 'enabled' in c.method else UNIT

# ------------------------------------------------------------------ relative-path (validated against the real crate, see trusted_base)
def relpath_components(s):
    return [c for c in s.split('/') if c != '']

def relpath_join(base, other):
    # RelativePath::join -> RelativePathBuf::push: strips a leading '/' of `other`, adds '/' separator if needed
    if other.startswith('/'):
        other = other[1:]
    if base and not base.endswith('/'):
        base = base + '/'
    return base + other

def relpath_parent(s):
    comps = relpath_components(s)
    if not comps:
        return None
    # parent = everything before the last component, as a slice of the original string
    t = s.rstrip('/')
    k = t.rfind('/')
    if k < 0:
        return ''
    return t[:k].rstrip('/') if t[:k].rstrip('/') else t[:k][:0]

def relpath_relative(frm, to):
    a = [c for c in relpath_components(frm) if c != '.']
    b = [c for c in relpath_components(to) if c != '.']
    i = 0
    while i < len(a) and i < len(b) and a[i] == b[i]:
        i += 1
    out = ['..'] * (len(a) - i) + b[i:]
    return '/'.join(out)

def RP(s):
    return Struct('relative_path::RelativePath', [Cell(s)], ['inner'])

@native(('RelativePath', 'new'), ('RelativePathBuf', 'from'), ('RelativePathBuf', 'new'))
def _rp_new(ex, c, a, dt):
    if not a: return RP('')
    s = as_str(a[0])
    return Ref(Cell(RP(s))) if c.head == 'RelativePath' else RP(s)
@native(('RelativePath', 'join'), ('RelativePathBuf', 'join'))
def _rp_join(ex, c, a, dt):
    base = deref(a[0]).f[0].v
    o = deref(a[1])
    other = o.f[0].v if type(o) is Struct else as_str(o)
    return RP(relpath_join(base, other))
@native(('RelativePath', 'parent'), ('RelativePathBuf', 'parent'))
def _rp_parent(ex, c, a, dt):
    p = relpath_parent(deref(a[0]).f[0].v)
    return NONE() if p is None else SOME(Ref(Cell(RP(p))))
@native(('RelativePath', 'relative'), ('RelativePathBuf', 'relative'))
def _rp_relative(ex, c, a, dt):
    frm = deref(a[0]).f[0].v
    o = deref(a[1])
    to = o.f[0].v if type(o) is Struct else as_str(o)
    return RP(relpath_relative(frm, to))
@native(('RelativePath', 'to_string'), ('RelativePathBuf', 'to_string'), ('RelativePath', 'as_str'), ('RelativePathBuf', 'as_str'),
        ('RelativePathBuf', 'into_string'))
def _rp_to_string(ex, c, a, dt):
    s = deref(a[0]).f[0].v
    return strref(s) if c.method == 'as_str' else s
@native(('RelativePath', 'to_relative_path_buf'), ('RelativePath', 'to_owned'))
def _rp_to_buf(ex, c, a, dt): return RP(deref(a[0]).f[0].v)
@native(('RelativePath', 'file_name'), ('RelativePathBuf', 'file_name'))
def _rp_file_name(ex, c, a, dt):
    comps = relpath_components(deref(a[0]).f[0].v)
    if not comps or comps[-1] in ('.', '..'): return NONE()
    return SOME(strref(comps[-1]))

# integer helpers
@native(('usize', 'saturating_sub'), ('u32', 'saturating_sub'), ('u64', 'saturating_sub'), ('u8', 'saturating_sub'))
def _sat_sub(ex, c, a, dt):
    x, y = a[0], a[1]
    if truth(ex, binop('Ge', x, y, c.head)): return binop('Sub', x, y, c.head)
    return 0
@native(('usize', 'checked_sub'), ('u8', 'checked_sub'), ('u64', 'checked_sub'), ('u32', 'checked_sub'))
def _checked_sub(ex, c, a, dt):
    x, y = a[0], a[1]
    if truth(ex, binop('Ge', x, y, c.head)): return SOME(binop('Sub', x, y, c.head))
    return NONE()
@native(('usize', 'min'), ('usize', 'max'), ('u8', 'min'), ('u8', 'max'), ('u64', 'min'), ('u64', 'max'), ('u32', 'max'), ('u32', 'min'))
def _int_minmax(ex, c, a, dt):
    x, y = a[0], a[1]
    le = truth(ex, binop('Le', x, y, c.head))
    if c.method == 'min': return x if le else y
    return y if le else x
@native(('cmp', 'min'), ('cmp', 'max'))
def _cmp_minmax(ex, c, a, dt):
    r = cmp_val(ex, a[0], a[1])
    if c.method == 'min': return a[0] if r <= 0 else a[1]
    return a[1] if r <= 0 else a[0]

def install(prog):
    prog.natives.update(NATIVES)
    prog.trait_natives.update(TRAIT_NATIVES)

# arithmetic through operator traits (std impls inherit the caller's overflow checks: debug semantics = panic)
def _arith(op):
    def f(ex, c, a, dt):
        x, y = deref(a[0]), deref(a[1])
        if isinstance(x, str) and op == 'Add':
            return x + as_str(y)            # String + &str
        ty = strip_generics(c.selfty or 'usize').lstrip('&').strip()
        from engine import ovfop
        if op in ('Add', 'Sub', 'Mul'):
            r, o = ovfop(op, x, y, ty)
            if truth(ex, o):
                raise Panic('attempt to %s with overflow' % op.lower())
            return r
        return binop(op, x, y, ty)
    return f
for _t, _m, _op in (('Add', 'add', 'Add'), ('Sub', 'sub', 'Sub'), ('Mul', 'mul', 'Mul'), ('Div', 'div', 'Div'), ('Rem', 'rem', 'Rem')):
    TRAIT_NATIVES[(_t, _m)] = _arith(_op)
def _arith_assign(op):
    inner = _arith(op)
    def f(ex, c, a, dt):
        a[0].cell.v = inner(ex, c, [a[0].cell.v, a[1]], dt)
        return UNIT
    return f
for _t, _m, _op in (('AddAssign', 'add_assign', 'Add'), ('SubAssign', 'sub_assign', 'Sub'), ('MulAssign', 'mul_assign', 'Mul')):
    TRAIT_NATIVES[(_t, _m)] = _arith_assign(_op)

# vec![a, b] expands to Box::new_uninit + raw write + box_assume_init_into_vec_unsafe
@native(('Box', 'new_uninit'))
def _box_new_uninit(ex, c, a, dt):
    arr = Cell(None)
    maybe_uninit = Tup([Cell(None), Cell(Tup([Cell(Tup([arr]))]))])
    unique = Tup([Cell(Ref(Cell(maybe_uninit)))])
    return Struct('UninitBox', [Cell(unique), arr], None)
@native(('*', 'box_assume_init_into_vec_unsafe'), ('boxed', 'box_assume_init_into_vec_unsafe'))
def _box_into_vec(ex, c, a, dt):
    return a[0].f[1].v
@native(('*', 'from_elem'), ('vec', 'from_elem'))
def _from_elem(ex, c, a, dt):
    n = concrete_int(ex, a[1])
    return VecV([Cell(clone_val(a[0])) for _ in range(n)])

# ------------------------------------------------------------------ line-structured symbolic strings (C13 harness)
class LineStr:
    """a &str given by its line structure: [(byte length of the line body, terminator)], terminator in '\\n', '\\r\\n', ''.
    Lengths may be symbolic; bodies contain no '\\n' and no '\\r'."""
    def __init__(self, lines):
        self.lines = lines
class LineSlice:
    def __init__(self, length, ends_nl):
        self.length, self.ends_nl = length, ends_nl

def _linestr(v):
    d = deref(v)
    return d if isinstance(d, (LineStr, LineSlice)) else None

_orig_lines = NATIVES[('str', 'lines')]
@native(('str', 'lines'))
def _lines2(ex, c, a, dt):
    ls = _linestr(a[0])
    if ls is None:
        return _orig_lines(ex, c, a, dt)
    return ListIt([Ref(Cell(LineSlice(n, False))) for n, t in ls.lines])      # lines() strips "\n" and "\r\n"
@native(('str', 'split_inclusive'))
def _split_inclusive(ex, c, a, dt):
    ls = _linestr(a[0])
    p = deref(a[1])
    if isinstance(p, int): p = chr(p)
    if ls is None:
        s = as_str(a[0])
        out, cur = [], ''
        i = 0
        while i < len(s):
            if s.startswith(p, i):
                cur += p; out.append(cur); cur = ''; i += len(p)
            else:
                cur += s[i]; i += 1
        if cur: out.append(cur)
        return ListIt([strref(x) for x in out])
    if p != '\n':
        raise Unsupported('split_inclusive on line-structured string with pattern %r' % p)
    return ListIt([Ref(Cell(LineSlice(binop('Add', n, len(t), 'usize'), t != ''))) for n, t in ls.lines])
_orig_split = NATIVES[('str', 'split')]
@native(('str', 'split'))
def _split2(ex, c, a, dt):
    ls = _linestr(a[0])
    if ls is None:
        return _orig_split(ex, c, a, dt)
    p = deref(a[1])
    if isinstance(p, int): p = chr(p)
    if p != '\n':
        raise Unsupported('split on line-structured string with pattern %r' % p)
    out = [Ref(Cell(LineSlice(binop('Add', n, len(t) - 1, 'usize') if t else n, False))) for n, t in ls.lines]
    if ls.lines and ls.lines[-1][1] != '':
        out.append(Ref(Cell(LineSlice(0, False))))
    return ListIt(out)
_orig_len = NATIVES[('str', 'len')]
@native(('str', 'len'), ('String', 'len'))
def _str_len2(ex, c, a, dt):
    ls = _linestr(a[0])
    if ls is None:
        return _orig_len(ex, c, a, dt)
    if isinstance(ls, LineSlice):
        return ls.length
    tot = 0
    for n, t in ls.lines:
        tot = binop('Add', tot, binop('Add', n, len(t), 'usize'), 'usize')
    return tot
_orig_sw = NATIVES[('str', 'ends_with')]
@native(('str', 'ends_with'))
def _ends_with2(ex, c, a, dt):
    ls = _linestr(a[0])
    if ls is None:
        return _orig_sw(ex, c, a, dt)
    p = deref(a[1])
    if isinstance(p, int): p = chr(p)
    if isinstance(ls, LineSlice) and p == '\n':
        return ls.ends_nl
    raise Unsupported('ends_with on line-structured string')
@tnative(('Iterator', 'scan'))
def _scan(ex, c, a, dt):
    return ScanIt(to_iter(ex, a[0]), a[1], a[2])
class ScanIt(It):
    def __init__(self, inner, state, f):
        self.inner, self.state, self.f, self.done = inner, Cell(state), f, False
    def next(self, ex):
        if self.done: return STOP
        v = self.inner.next(ex)
        if v is STOP: return STOP
        r = ex.call_value(self.f, [Cell(Ref(self.state)), Cell(v)])
        if r.vi == 0:
            self.done = True
            return STOP
        return r.f[0].v
@native(('*', 'once'), ('iter', 'once'))
def _once(ex, c, a, dt): return ListIt([a[0]])

# rayon: executed sequentially (order-insensitivity of the callers is property C16, not claimed)
@tnative(('IntoParallelRefIterator', 'par_iter'), ('IntoParallelRefMutIterator', 'par_iter_mut'))
def _par_iter(ex, c, a, dt):
    v = a[0]
    if type(v) is not Ref:
        v = Ref(Cell(v))
    return to_iter(ex, v)
@tnative(('IntoParallelIterator', 'into_par_iter'))
def _into_par_iter(ex, c, a, dt): return to_iter(ex, a[0])
for _m in ('map', 'filter', 'filter_map', 'flat_map', 'flatten', 'cloned', 'collect', 'for_each', 'find_first', 'find_any', 'count', 'any', 'all', 'sum', 'enumerate', 'chain', 'zip'):
    for _t in ('ParallelIterator', 'IndexedParallelIterator'):
        if ('Iterator', _m) in TRAIT_NATIVES and (_t, _m) not in TRAIT_NATIVES:
            TRAIT_NATIVES[(_t, _m)] = TRAIT_NATIVES[('Iterator', _m)]
TRAIT_NATIVES[('ParallelIterator', 'find_first')] = TRAIT_NATIVES[('Iterator', 'find')]
TRAIT_NATIVES[('ParallelIterator', 'find_any')] = TRAIT_NATIVES[('Iterator', 'find')]

_orig_contains = NATIVES[('str', 'contains')]
@native(('str', 'contains'))
def _contains2(ex, c, a, dt):
    ls = _linestr(a[0])
    if ls is None:
        return _orig_contains(ex, c, a, dt)
    p = deref(a[1])
    if isinstance(p, int): p = chr(p)
    if isinstance(ls, LineStr):
        if p == '\r\n': return any(t == '\r\n' for n, t in ls.lines)
        if p == '\n': return any(t != '' for n, t in ls.lines)
        if p == '\r': return any(t == '\r\n' for n, t in ls.lines)
    raise Unsupported('contains(%r) on line-structured string' % p)
@native(('str', 'matches'), ('str', 'match_indices'))
def _matches(ex, c, a, dt):
    ls = _linestr(a[0])
    p = deref(a[1])
    if isinstance(p, int): p = chr(p)
    if ls is None:
        s = as_str(a[0])
        idx = [i for i in range(len(s)) if s.startswith(p, i)]
        if c.method == 'matches': return ListIt([strref(p) for _ in idx])
        return ListIt([Tup([Cell(len(s[:i].encode())), Cell(strref(p))]) for i in idx])
    if not isinstance(ls, LineStr) or p not in ('\n', '\r\n'):
        raise Unsupported('matches(%r) on line-structured string' % p)
    out, off = [], 0
    for n, t in ls.lines:
        if t == '\r\n' or (t == '\n' and p == '\n'):
            pos = binop('Add', off, n, 'usize') if p == '\r\n' or t == '\n' else binop('Add', off, binop('Add', n, 1, 'usize'), 'usize')
            if p == '\n' and t == '\r\n':
                pos = binop('Add', off, binop('Add', n, 1, 'usize'), 'usize')
            out.append(strref(p) if c.method == 'matches' else Tup([Cell(pos), Cell(strref(p))]))
        off = binop('Add', off, binop('Add', n, len(t), 'usize'), 'usize')
    return ListIt(out)

@native(('RangeInclusive', 'new'))
def _ri_new(ex, c, a, dt):
    return Struct('std::ops::RangeInclusive', [Cell(a[0]), Cell(a[1]), Cell(False)], ['start', 'end', 'exhausted'])
@native(('RangeInclusive', 'start'), ('RangeInclusive', 'end'))
def _ri_start(ex, c, a, dt):
    return Ref(deref(a[0]).f[0 if c.method == 'start' else 1])
@native(('RangeInclusive', 'is_empty'))
def _ri_is_empty(ex, c, a, dt):
    r = deref(a[0])
    return r.f[2].v or not truth(ex, binop('Le', r.f[0].v, r.f[1].v, 'usize'))

class RangeInclIt(It):
    def __init__(self, rng): self.rng = rng
    def next(self, ex):
        r = self.rng
        if r.f[2].v: return STOP
        s, e = r.f[0].v, r.f[1].v
        if truth(ex, binop('Lt', s, e, 'usize')):
            r.f[0].v = binop('Add', s, 1, 'usize')
            return s
        if truth(ex, binop('Eq', s, e, 'usize')):
            r.f[2].v = True
            return s
        return STOP

_orig_to_iter = to_iter
def to_iter(ex, v):
    d = v.cell.v if type(v) is Ref else v
    if type(d) is Struct and d.ty.endswith('RangeInclusive'):
        return RangeInclIt(d)
    return _orig_to_iter(ex, v)
_orig_iter_of = iter_of
def iter_of(v):
    d = v
    while type(d) is Ref:
        d = d.cell.v
    if type(d) is Struct and d.ty.endswith('RangeInclusive'):
        return RangeInclIt(d)
    return _orig_iter_of(v)

@native(('str', 'split_once'), ('str', 'rsplit_once'))
def _split_once(ex, c, a, dt):
    s = as_str(a[0]); p = deref(a[1])
    if isinstance(p, int): p = chr(p)
    i = s.find(p) if c.method == 'split_once' else s.rfind(p)
    if i < 0: return NONE()
    return SOME(Tup([Cell(strref(s[:i])), Cell(strref(s[i + len(p):]))]))
@native(('str', 'rsplit'), ('str', 'splitn'), ('str', 'rsplitn'))
def _rsplit(ex, c, a, dt):
    if c.method == 'rsplit':
        s = as_str(a[0]); p = deref(a[1])
        if isinstance(p, int): p = chr(p)
        return ListIt([strref(x) for x in reversed(s.split(p))])
    n = concrete_int(ex, a[1]); s = as_str(a[0]); p = deref(a[2])
    if isinstance(p, int): p = chr(p)
    parts = s.split(p, n - 1) if c.method == 'splitn' else list(reversed(s.rsplit(p, n - 1)))
    return ListIt([strref(x) for x in parts])
@native(('str', 'find'), ('str', 'rfind'))
def _find(ex, c, a, dt):
    s = as_str(a[0]); p = deref(a[1])
    if isinstance(p, int): p = chr(p)
    i = s.find(p) if c.method == 'find' else s.rfind(p)
    return NONE() if i < 0 else SOME(len(s[:i].encode()))
@native(('str', 'eq_ignore_ascii_case'))
def _eq_ic(ex, c, a, dt): return as_str(a[0]).lower() == as_str(a[1]).lower()
@native(('str', 'get'))
def _str_get(ex, c, a, dt):
    s = as_str(a[0]).encode()
    try:
        lo, hi = range_bounds(ex, a[1], len(s))
        if lo > hi or hi > len(s): return NONE()
        return SOME(strref(s[lo:hi].decode()))
    except UnicodeDecodeError:
        return NONE()

# ------------------------------------------------------------------ lsp-types / url / serde_json (handler-level harness)
def URL(s):
    return Struct('lsp_types::Url', [Cell(s)], ['serialization'])

def url_str(v):
    d = deref(v)
    if type(d) is Struct and d.ty.endswith('Url'):
        return d.f[0].v
    raise Unsupported('expected Url, got %r' % (d,))

@native(('Url', 'parse'))
def _url_parse(ex, c, a, dt):
    s = as_str(a[0])
    if '://' not in s and not s.startswith(('file:', 'untitled:', 'mailto:')):
        return ERR(Opaque('ParseError'))
    return OK(URL(s))
@native(('Url', 'join'))
def _url_join(ex, c, a, dt):
    from urllib.parse import urljoin, quote
    base = url_str(a[0]); rel = as_str(a[1])
    return OK(URL(urljoin(base, quote(rel, safe="/:@!$&'()*+,;=-._~%"))))
@native(('Url', 'to_string'), ('Url', 'as_str'), ('Url', 'path'))
def _url_to_string(ex, c, a, dt):
    s = url_str(a[0])
    if c.method == 'path':
        from urllib.parse import urlparse
        return strref(urlparse(s).path)
    return s if c.method == 'to_string' else strref(s)
@native(('Position', 'new'))
def _lsp_position_new(ex, c, a, dt):
    return Struct('lsp_types::Position', [Cell(a[0]), Cell(a[1])], ['line', 'character'])
@native(('Range', 'new'))
def _lsp_range_new(ex, c, a, dt):
    return Struct('lsp_types::Range', [Cell(a[0]), Cell(a[1])], ['start', 'end'])
@native(('Location', 'new'))
def _lsp_location_new(ex, c, a, dt):
    return Struct('lsp_types::Location', [Cell(a[0]), Cell(a[1])], ['uri', 'range'])
@native(('Value', 'as_u64'))
def _value_as_u64(ex, c, a, dt):
    v = deref(a[0])
    if type(v) is Enum and v.vn == 'Number':
        n = v.f[0].v
        return SOME(n) if (isinstance(n, int) and n >= 0) or is_sym(n) else NONE()
    return NONE()
@native(('*', 'to_value'), ('serde_json', 'to_value'), ('value', 'to_value'))
def _to_value(ex, c, a, dt):
    return OK(Opaque('JsonValue', a[0]))

_orig_display = display
def display(ex, v):
    d = deref(v)
    if type(d) is Struct and d.ty.endswith('Url'):
        return d.f[0].v
    return _orig_display(ex, v)

_orig_arg_new = NATIVES[('Argument', 'new_display')]
@native(('Argument', 'new_display'))
def _arg_new2(ex, c, a, dt):
    d = deref(a[0])
    if type(d) is Opaque and d.tag == 'Blocks':
        return Opaque('Argument', d)          # structure-valued "markdown" (to_markdown stub) passes through format!("{}", ..)
    return _orig_arg_new(ex, c, a, dt)

_orig_args_new = NATIVES[('Arguments', 'new')]
@native(('Arguments', 'new_const'), ('Arguments', 'new_v1'), ('Arguments', 'new_v1_formatted'), ('Arguments', 'new'))
def _args_new2(ex, c, a, dt):
    if len(a) == 2:
        try:
            argv = [x.v for x in items(a[1])]
        except Unsupported:
            argv = []
        blocks = [x.data for x in argv if type(x) is Opaque and type(x.data) is Opaque and x.data.tag == 'Blocks']
        if blocks:
            return Opaque('Arguments', blocks[-1])
    return _orig_args_new(ex, c, a, dt)


@native(('slice', 'partition_point'))
def _partition_point(ex, c, a, dt):
    its = items(a[0])
    i = 0
    for x in its:
        if not truth(ex, ex.call_value(a[1], [Cell(Ref(x))])):
            break
        i += 1
    return i
@native(('slice', 'binary_search_by'), ('slice', 'binary_search_by_key'), ('slice', 'binary_search'))
def _binary_search(ex, c, a, dt):
    its = items(a[0])
    for i, x in enumerate(its):
        if c.method == 'binary_search':
            o = cmp_val(ex, x.v, a[1])
        elif c.method == 'binary_search_by':
            o = ex.call_value(a[1], [Cell(Ref(x))]).vi - 1
        else:
            o = cmp_val(ex, ex.call_value(a[2], [Cell(Ref(x))]), a[1])
        if o == 0:
            return OK(i)
        if o > 0:
            return ERR(i)
    return ERR(len(its))
@native(('String', 'truncate'))
def _str_truncate(ex, c, a, dt):
    s = as_str(a[0]).encode(); n_ = concrete_int(ex, a[1])
    if n_ < len(s):
        try:
            a[0].cell.v = s[:n_].decode()
        except UnicodeDecodeError:
            raise Panic('assertion failed: self.is_char_boundary(new_len)')
    return UNIT

# Arc strong count as environment: harnesses may attach a symbolic count of live clones to an ArcV (attribute `strong`)
@native(('Arc', 'get_mut'))
def _arc_get_mut2(ex, c, a, dt):
    arc = deref_once(a[0])
    strong = getattr(arc, 'strong', 1)
    unique = truth(ex, binop('Eq', strong, 1, 'usize'))
    return SOME(Ref(arc.cell)) if unique else NONE()
@native(('Arc', 'strong_count'))
def _arc_strong_count(ex, c, a, dt):
    return getattr(deref_once(a[0]), 'strong', 1)
@tnative(('PartialOrd', 'le'))
def _le_generic(ex, c, a, dt):
    x, y = deref(a[0]), deref(a[1])
    if type(x) is Enum and type(y) is Enum:
        return x.vi <= y.vi
    if type(x) is Opaque or type(y) is Opaque:
        return False            # log level comparisons: logging is off in the model
    return _ord_ops(ex, c, a, dt)


# ---- byte-symbolic ASCII strings (bounded length, every byte a symbolic 8-bit value below 128) ---------------------------
class SymBytes:
    """a str of known length whose bytes are symbolic ASCII values (ints or z3 BitVec(8))"""
    def __init__(self, bs):
        self.bs = list(bs)

def _symbytes(v):
    d = deref(v)
    return d if isinstance(d, SymBytes) else None

def _b8(x):
    return z3.BitVecVal(x, 8) if isinstance(x, int) else x

_lower_plain = NATIVES[('str', 'to_lowercase')]
@native(('str', 'to_lowercase'), ('str', 'to_uppercase'), ('str', 'to_ascii_lowercase'))
def _lower_sym(ex, c, a, dt):
    sb = _symbytes(a[0])
    if sb is None:
        return _lower_plain(ex, c, a, dt)
    out = []
    for b in sb.bs:
        b = _b8(b)
        if 'lower' in c.method:
            out.append(z3.simplify(z3.If(z3.And(z3.UGE(b, 65), z3.ULE(b, 90)), b + 32, b)))
        else:
            out.append(z3.simplify(z3.If(z3.And(z3.UGE(b, 97), z3.ULE(b, 122)), b - 32, b)))
    return SymBytes(out)

_starts_plain = {m_: NATIVES[('str', m_)] for m_ in ('starts_with', 'ends_with', 'contains')}
@native(('str', 'starts_with'), ('str', 'ends_with'), ('str', 'contains'))
def _starts_sym(ex, c, a, dt):
    sb = _symbytes(a[0])
    if sb is None:
        return _starts_plain[c.method](ex, c, a, dt)
    p = deref(a[1])
    if isinstance(p, int): p = chr(p)
    if not isinstance(p, str):
        raise Unsupported('pattern of a byte-symbolic string must be concrete')
    pb = p.encode()
    n, m = len(sb.bs), len(pb)
    if m > n:
        return False
    def at(off):
        return z3.And([_b8(sb.bs[off + i]) == pb[i] for i in range(m)]) if m else z3.BoolVal(True)
    if c.method == 'starts_with': r = at(0)
    elif c.method == 'ends_with': r = at(n - m)
    else: r = z3.Or([at(o) for o in range(n - m + 1)])
    r = z3.simplify(r)
    return True if z3.is_true(r) else False if z3.is_false(r) else r

_len_plain2 = NATIVES[('str', 'len')]
@native(('str', 'len'), ('String', 'len'))
def _len_sym(ex, c, a, dt):
    sb = _symbytes(a[0])
    return len(sb.bs) if sb is not None else _len_plain2(ex, c, a, dt)

_is_empty_plain = NATIVES.get(('str', 'is_empty'))
@native(('str', 'is_empty'), ('String', 'is_empty'))
def _is_empty_sym(ex, c, a, dt):
    sb = _symbytes(a[0])
    if sb is not None:
        return len(sb.bs) == 0
    if _is_empty_plain is None:
        return binop('Eq', NATIVES[('str', 'len')](ex, c, a, dt), 0, 'usize')
    return _is_empty_plain(ex, c, a, dt)

@native(('Argument', 'from_usize'))
def _arg_from_usize(ex, c, a, dt):
    """a dynamic width / precision argument of format!: carries the number itself"""
    return Opaque('Argument', deref(a[0]))

@native(('slice', 'windows'))
def _windows(ex, c, a, dt):
    its = items(a[0])
    n_ = concrete_int(ex, a[1])
    if n_ == 0:
        raise Panic('window size must be non-zero')
    base = deref(a[0])
    vec = base.vec if type(base) is SliceV else base
    lo = base.lo if type(base) is SliceV else 0
    return ListIt([Ref(Cell(SliceV(vec, lo + i, lo + i + n_))) for i in range(max(0, len(its) - n_ + 1))])
