#[cfg(kani)]
mod h {
    use liwe::model::node::{Node, NodeIter, NodePointer, Reference, ReferenceType};
    use liwe::model::tree::Tree;
    use liwe::model::{Key, NodeId};
    use std::sync::Arc;

    // N notes; note i has nodes: doc = 3*i, section = 3*i+1 (child of doc), reference = 3*i+2 (child of section)
    const N: usize = 2;

    struct World {
        keys: [Key; N + 1],     // keys[N] = dangling key
        target: [usize; N],     // reference target of note i in 0..=N (N = missing note)
    }

    #[derive(Clone, Copy)]
    struct P<'a> { w: &'a World, id: u64 }

    impl<'a> NodeIter<'a> for P<'a> {
        fn next(&self) -> Option<Self> { None }
        fn child(&self) -> Option<Self> {
            if self.id % 3 == 2 { None } else { Some(P { w: self.w, id: self.id + 1 }) }
        }
        fn node(&self) -> Option<Node> {
            let note = (self.id / 3) as usize;
            match self.id % 3 {
                0 => Some(Node::Document(self.w.keys[note].clone())),
                1 => Some(Node::Section(vec![])),
                _ => Some(Node::Reference(Reference {
                    key: self.w.keys[self.w.target[note]].clone(),
                    text: String::new(),
                    reference_type: ReferenceType::Regular,
                })),
            }
        }
    }
    impl<'a> NodePointer<'a> for P<'a> {
        fn id(&self) -> Option<NodeId> { Some(self.id) }
        fn next_id(&self) -> Option<NodeId> { None }
        fn child_id(&self) -> Option<NodeId> { if self.id % 3 == 2 { None } else { Some(self.id + 1) } }
        fn prev_id(&self) -> Option<NodeId> { if self.id % 3 == 0 { None } else { Some(self.id - 1) } }
        fn to_node(&self, id: NodeId) -> Self { P { w: self.w, id } }
        fn to_key(&self, key: Key) -> Option<Self> {
            let mut i = 0;
            while i < N {
                if Arc::ptr_eq(&key.relative_path, &self.w.keys[i].relative_path) {
                    return Some(P { w: self.w, id: (3 * i) as u64 });
                }
                i += 1;
            }
            None
        }
    }

    fn count_refs(t: &Tree, depth: usize) -> usize {
        if depth == 0 { return 0; }
        let mut c = if t.is_reference() { 1 } else { 0 };
        for ch in t.children.iter() { c += count_refs(ch, depth - 1); }
        c
    }

    #[kani::proof]
    #[kani::unwind(12)]
    fn s1_squash() {
        let w = World {
            keys: [
                Key { relative_path: Arc::new(String::new()) },
                Key { relative_path: Arc::new(String::new()) },
                Key { relative_path: Arc::new(String::new()) },
            ],
            target: kani::any(),
        };
        kani::assume(w.target[0] <= N && w.target[1] <= N);
        let depth: u8 = kani::any();
        kani::assume(depth <= 2);
        let t = P { w: &w, id: 0 }.squash_tree(depth);
        // result: doc -> section -> ... exactly one reference survives at the end of the chain (or none?)
        assert!(t.children.len() == 1);
        let r = count_refs(&t, 8);
        assert!(r == 1);
        std::mem::forget(t);
        std::mem::forget(w);
    }
}
