use super::*;

fn ls_spec_check(bytes: &[u8]) {
    let s = unsafe { std::str::from_utf8_unchecked(bytes) };
    let ls = line_starts(s);
    assert!(ls[0] == 0);
    let mut k = 1;
    let mut i = 0;
    while i < bytes.len() {
        if bytes[i] == b'\n' {
            assert!(ls[k] == i + 1);
            k += 1;
        }
        i += 1;
    }
    std::mem::forget(ls);
}

#[kani::proof]
#[kani::unwind(5)]
fn ke_line_starts2() {
    let bytes: [u8; 2] = kani::any();
    kani::assume(bytes[0] == b'a' || bytes[0] == b'\n' || bytes[0] == b'\r');
    kani::assume(bytes[1] == b'a' || bytes[1] == b'\n' || bytes[1] == b'\r');
    ls_spec_check(&bytes);
}

#[kani::proof]
#[kani::unwind(6)]
fn ke_line_starts3() {
    let bytes: [u8; 3] = kani::any();
    kani::assume(bytes[0] == b'a' || bytes[0] == b'\n' || bytes[0] == b'\r');
    kani::assume(bytes[1] == b'a' || bytes[1] == b'\n' || bytes[1] == b'\r');
    kani::assume(bytes[2] == b'a' || bytes[2] == b'\n' || bytes[2] == b'\r');
    ls_spec_check(&bytes);
}

#[kani::proof]
#[kani::unwind(6)]
fn kd_to_inline_range() {
    let ls: [usize; 4] = kani::any();
    kani::assume(ls[0] == 0 && ls[0] < ls[1] && ls[1] < ls[2] && ls[2] < ls[3] && ls[3] < 1000);
    let mut r = MarkdownEventsReader::new();
    r.line_starts = vec![ls[0], ls[1], ls[2], ls[3]];
    let a: usize = kani::any();
    let b: usize = kani::any();
    kani::assume(a <= b && b < 2000);
    let ir = r.to_inline_range(a..b);
    assert!(ls[ir.start.line] + ir.start.character == a);
    assert!(ls[ir.end.line] + ir.end.character == b);
    assert!(ir.start.line == 3 || a < ls[ir.start.line + 1]);
    assert!(ir.start <= ir.end);
    std::mem::forget(r);
}

#[kani::proof]
fn kf_link_type_roundtrip() {
    let hp: bool = kani::any();
    let lt = pulldown_cmark::LinkType::WikiLink { has_pothole: hp };
    let d = to_link_type(lt);
    let back = d.to_ref_type().to_link_type();
    assert!(back == d);
    match d {
        document::LinkType::WikiLinkPiped => assert!(hp),
        document::LinkType::WikiLink => assert!(!hp),
        document::LinkType::Regular => assert!(false),
    }
    assert!(to_link_type(pulldown_cmark::LinkType::Inline) == document::LinkType::Regular);
}
