#!/usr/bin/env python3
"""Throw-away feasibility spike: path-forking symbolic interpreter for rustc MIR text (subset).
Target: liwe::graph::sections_builder::ranges with symbolic Vec<usize> elements."""
import re, sys, copy, time
import z3

MIR = open(sys.argv[1]).read()

# ---------------------------------------------------------------- parsing
class Fn:
    def __init__(s, name, args, blocks, types): s.name, s.args, s.blocks, s.types = name, args, blocks, types

def parse_functions(text):
    fns = {}
    for m in re.finditer(r'^fn (.+?)\((.*?)\) -> (.+?) \{\n(.*?)^\}\n', text, re.S | re.M):
        name, args, ret, body = m.group(1), m.group(2), m.group(3), m.group(4)
        types = {int(a): t for a, t in re.findall(r'let (?:mut )?_(\d+): (.+?);', body)}
        argl = []
        for a in re.findall(r'_(\d+): ', args): argl.append(int(a))
        blocks = {}
        for bm in re.finditer(r'^    bb(\d+)(?: \(cleanup\))?: \{\n(.*?)^    \}', body, re.S | re.M):
            stmts = [l.strip() for l in bm.group(2).split('\n') if l.strip()]
            blocks[int(bm.group(1))] = stmts
        fns[name] = Fn(name, argl, blocks, types)
    return fns

FNS = parse_functions(MIR)

# ---------------------------------------------------------------- values
class Cell:
    def __init__(s, v=None): s.v = v
class Struct:
    def __init__(s, name, fields): s.name, s.f = name, fields   # fields: dict name->Cell
class Enum:
    def __init__(s, variant, fields): s.variant, s.f = variant, fields
class VecV:
    def __init__(s, items): s.items = items  # list of Cell
class Ref:
    def __init__(s, cell): s.cell = cell
class RangeIter(Struct): pass

W = 64
def bv(x): return x if z3.is_expr(x) else z3.BitVecVal(x, W)

class Panic(Exception): pass

class State:
    def __init__(s): s.pc = []; s.frames = []

class Frame:
    def __init__(s, fn): s.fn = fn; s.locals = {}; s.bb = 0; s.ip = 0; s.ret_to = None

solver_calls = 0
def feasible(pc, extra):
    global solver_calls
    solver_calls += 1
    sv = z3.Solver(); sv.add(*pc); sv.add(extra)
    return sv.check() == z3.sat

# ---------------------------------------------------------------- places / operands
def split_top(s, sep=','):
    out, depth, cur = [], 0, ''
    for ch in s:
        if ch in '([{<': depth += 1
        if ch in ')]}>': depth -= 1
        if ch == sep and depth == 0: out.append(cur.strip()); cur = ''
        else: cur += ch
    if cur.strip(): out.append(cur.strip())
    return out

def place_cell(fr, p):
    p = p.strip()
    m = re.fullmatch(r'_(\d+)', p)
    if m: return fr.locals.setdefault(int(m.group(1)), Cell())
    if p.startswith('(*') and p.endswith(')'):
        r = place_cell(fr, p[2:-1]).v
        assert isinstance(r, Ref), p
        return r.cell
    m = re.fullmatch(r'\((.+)\.(\d+): (.+)\)', p)
    if m:
        base = place_cell(fr, m.group(1)); idx = int(m.group(2))
        v = base.v
        if isinstance(v, tuple): return v[idx]
        if isinstance(v, (Struct, Enum)):
            keys = list(v.f.keys()); return v.f[keys[idx]]
        raise Exception('field of %r' % v)
    m = re.fullmatch(r'\((.+) as (\w+)\)', p)
    if m: return place_cell(fr, m.group(1))
    raise Exception('place? ' + p)

def deep(v):
    if isinstance(v, (Struct, Enum, VecV, tuple)): return copy.deepcopy(v)
    return v

def operand(fr, o):
    o = o.strip()
    if o.startswith('copy '): return deep(place_cell(fr, o[5:]).v)
    if o.startswith('move '): return place_cell(fr, o[5:]).v
    if o.startswith('const '):
        c = o[6:]
        m = re.fullmatch(r'(-?\d+)_(u|i)(size|\d+)', c)
        if m: return z3.BitVecVal(int(m.group(1)), W)
        if c == 'true': return z3.BoolVal(True)
        if c == 'false': return z3.BoolVal(False)
        if c == '()': return ()
        raise Exception('const? ' + c)
    raise Exception('operand? ' + o)

BIN = {'Add': lambda a, b: a + b, 'Sub': lambda a, b: a - b, 'Lt': z3.ULT, 'Le': z3.ULE, 'Gt': z3.UGT, 'Ge': z3.UGE,
       'Eq': lambda a, b: a == b, 'Ne': lambda a, b: a != b}

def rvalue(fr, r):
    r = r.strip()
    if r.startswith('&mut '): return Ref(place_cell(fr, r[5:]))
    if r.startswith('&'): return Ref(place_cell(fr, r[1:]))
    m = re.fullmatch(r'(\w+)WithOverflow\((.+)\)', r)
    if m:
        a, b = [operand(fr, x) for x in split_top(m.group(2))]
        if m.group(1) == 'Add': return (Cell(a + b), Cell(z3.Not(z3.BVAddNoOverflow(a, b, False))))
        if m.group(1) == 'Sub': return (Cell(a - b), Cell(z3.ULT(a, b)))
    m = re.fullmatch(r'(\w+)\((.+)\)', r)
    if m and m.group(1) in BIN:
        a, b = [operand(fr, x) for x in split_top(m.group(2))]
        return BIN[m.group(1)](a, b)
    m = re.fullmatch(r'discriminant\((.+)\)', r)
    if m:
        v = place_cell(fr, m.group(1)).v
        return z3.BitVecVal({'None': 0, 'Some': 1}[v.variant], W)
    m = re.fullmatch(r'([\w:<>, ]+?) \{ (.+) \}', r)
    if m:
        fields = {}
        for f in split_top(m.group(2)):
            k, v = f.split(':', 1); fields[k.strip()] = Cell(operand(fr, v))
        return Struct(m.group(1), fields)
    return operand(fr, r)

# ---------------------------------------------------------------- native models of std callees
def native(st, fr, callee, args):
    a = [operand(fr, x) for x in args]
    if re.fullmatch(r'Vec::<.*>::new', callee): return VecV([])
    if re.fullmatch(r'Vec::<.*>::is_empty', callee): return z3.BoolVal(len(a[0].cell.v.items) == 0)
    if re.fullmatch(r'Vec::<.*>::len', callee): return z3.BitVecVal(len(a[0].cell.v.items), W)
    if re.fullmatch(r'Vec::<.*>::push', callee): a[0].cell.v.items.append(Cell(a[1])); return ()
    if 'as IntoIterator>::into_iter' in callee: return a[0]
    if callee == '<std::ops::Range<usize> as Iterator>::next':
        rng = a[0].cell.v
        s, e = rng.f['start'].v, rng.f['end'].v
        cond = z3.simplify(z3.ULT(s, e))
        if z3.is_true(cond): take = True
        elif z3.is_false(cond): take = False
        else: raise Exception('symbolic range bound: fork needed')
        if take:
            rng.f['start'].v = z3.simplify(s + 1); return Enum('Some', {'0': Cell(s)})
        return Enum('None', {})
    if 'as Index<usize>>::index' in callee:
        vec, i = a[0].cell.v, z3.simplify(a[1])
        assert z3.is_bv_value(i), 'symbolic index'
        i = i.as_long()
        if i >= len(vec.items): raise Panic('index out of bounds')
        return Ref(vec.items[i])
    raise Exception('no native model for ' + callee)

# ---------------------------------------------------------------- execution
def run(fn_name, args, pc0):
    results = []
    st = State(); st.pc = list(pc0)
    fr = Frame(FNS[fn_name])
    for i, a in zip(fr.fn.args, args): fr.locals[i] = Cell(a)
    work = [(st, fr)]
    steps = 0
    while work:
        st, fr = work.pop()
        try:
            while True:
                stmt = fr.fn.blocks[fr.bb][fr.ip]; fr.ip += 1; steps += 1
                if stmt.startswith(('StorageLive', 'StorageDead', 'nop', 'FakeRead', 'PlaceMention', 'Retag', 'AscribeUserType', 'Coverage')): continue
                if stmt == 'return;': results.append((st.pc, fr.locals[0].v, None)); break
                m = re.fullmatch(r'goto -> bb(\d+);', stmt)
                if m: fr.bb, fr.ip = int(m.group(1)), 0; continue
                m = re.fullmatch(r'drop\(.+\) -> \[return: bb(\d+), .*\];', stmt)
                if m: fr.bb, fr.ip = int(m.group(1)), 0; continue
                m = re.fullmatch(r'switchInt\((.+?)\) -> \[(.+)\];', stmt)
                if m:
                    v = operand(fr, m.group(1))
                    if z3.is_bool(v): v = z3.If(v, z3.BitVecVal(1, W), z3.BitVecVal(0, W))
                    targets = []; others = []
                    for t in split_top(m.group(2)):
                        k, b = t.split(': bb')
                        if k == 'otherwise': targets.append((z3.And(*[v != o for o in others]) if others else z3.BoolVal(True), int(b)))
                        else: others.append(z3.BitVecVal(int(k), W)); targets.append((v == int(k), int(b)))
                    feas = [(c, b) for c, b in targets if feasible(st.pc, c)]
                    for c, b in feas[1:]:
                        st2, fr2 = copy.deepcopy((st, fr)); st2.pc.append(c); fr2.bb, fr2.ip = b, 0; work.append((st2, fr2))
                    c, b = feas[0]; st.pc.append(c); fr.bb, fr.ip = b, 0; continue
                m = re.fullmatch(r'assert\((!?)(.+?), "(.*?)".*\) -> \[success: bb(\d+), .*\];', stmt)
                if m:
                    c = operand(fr, m.group(2))
                    if m.group(1): c = z3.Not(c)
                    if feasible(st.pc, z3.Not(c)): results.append((st.pc + [z3.Not(c)], None, 'panic: ' + m.group(3)))
                    st.pc.append(c); fr.bb, fr.ip = int(m.group(4)), 0; continue
                m = re.fullmatch(r'(.+?) = (.+?)\((.*)\) -> \[return: bb(\d+), .*\];', stmt)
                if m:
                    dst, callee, argstr, nb = m.groups()
                    place_cell(fr, dst).v = native(st, fr, callee, split_top(argstr))
                    fr.bb, fr.ip = int(nb), 0; continue
                m = re.fullmatch(r'(.+?) = (.+);', stmt)
                if m: place_cell(fr, m.group(1)).v = rvalue(fr, m.group(2)); continue
                raise Exception('stmt? ' + stmt)
        except Panic as p:
            results.append((st.pc, None, 'panic: ' + str(p)))
    return results, steps

if __name__ == '__main__':
    t0 = time.time()
    n = int(sys.argv[2]) if len(sys.argv) > 2 else 3
    p = [z3.BitVec('p%d' % i, W) for i in range(n)]
    end = z3.BitVec('end', W)
    pre = [z3.ULT(p[i], p[i + 1]) for i in range(n - 1)] + [z3.ULE(p[-1], end), z3.ULT(end, 1000)]
    res, steps = run('ranges', [VecV([Cell(x) for x in p]), end], pre)
    viol = 0
    for pc, out, err in res:
        if err:
            print('PATH panic', err); viol += 1; continue
        rs = [(c.v.f['start'].v, c.v.f['end'].v) for c in out.items]
        # law: tiles [p0, end): contiguous, non-empty, ends at `end` (or empty when p[n-1]==end and n==1)
        law = []
        cur = p[0]
        for s_, e_ in rs: law += [s_ == cur, z3.ULT(s_, e_)]; cur = e_
        law.append(cur == end)
        sv = z3.Solver(); sv.add(*pc); sv.add(z3.Not(z3.And(*law)))
        r = sv.check(); solver_calls += 1
        print('PATH ranges=%d  law:' % len(rs), 'holds' if r == z3.unsat else ('VIOLATED ' + str(sv.model())))
        viol += r != z3.unsat
    print('paths=%d steps=%d solver_calls=%d wall=%.2fs violations=%d' % (len(res), steps, solver_calls, time.time() - t0, viol))
