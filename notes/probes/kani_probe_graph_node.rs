use super::*;
use crate::graph::graph_node::GraphNode;

#[kani::proof]
fn kg_node_links() {
    let prev: u64 = kani::any(); let id: u64 = kani::any(); let line: usize = kani::any();
    let n: u64 = kani::any(); let c: u64 = kani::any();
    let which: u8 = kani::any();
    kani::assume(which < 5);
    let mut node = match which {
        0 => GraphNode::new_section(prev, id, line),
        1 => GraphNode::new_quote(prev, id),
        2 => GraphNode::new_bullet_list(prev, id),
        3 => GraphNode::new_ordered_list(prev, id),
        _ => GraphNode::new_leaf(prev, id, line),
    };
    assert!(node.next_id().is_none() && node.child_id().is_none());
    node.set_next_id(n);
    assert!(node.next_id() == Some(n) && node.prev_id() == Some(prev) && node.id() == id && node.child_id().is_none());
    if node.insertable() {
        node.set_child_id(c);
        assert!(node.child_id() == Some(c) && node.next_id() == Some(n) && node.prev_id() == Some(prev));
        assert!(node.is_parent_of(c) && node.is_prev_of(n));
    } else {
        assert!(which == 4);
    }
}
